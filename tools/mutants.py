#!/usr/bin/env python3
"""
Self-test: run checks against single-edit mutants of kingdon WITHOUT touching /repo.
A copy of /repo/kingdon is made under $TMPDIR/kvmut/<name>, edited, and the check is run with
KV_REPO pointing at it (bin/check then puts it first on PYTHONPATH) and KV_EVIDENCE_DIR
redirected so that committed evidence is not overwritten.  The copy is removed afterwards.

usage: tools/mutants.py [-k SUBSTR] [--tier quick] [--props C04,C05] [--jobs N]
Mutant corpus: design_probes/run_mutants.py (M..), run_mutants2.py (N..), seeded/*/patch.diff
"""
import argparse, ast, json, os, re, shutil, subprocess, sys, tempfile, time
from concurrent.futures import ThreadPoolExecutor

ROOT = os.path.dirname(os.path.dirname(os.path.abspath(__file__)))


def load_corpus():
    out = {}
    for f in ('run_mutants.py', 'run_mutants2.py'):
        src = open(os.path.join(ROOT, 'design_probes', f)).read()
        tree = ast.parse(src)
        for node in tree.body:
            if isinstance(node, ast.Assign) and node.targets[0].id == 'MUTANTS':
                out.update(ast.literal_eval(node.value))
    # seeded defects written by independent sub-agents: seeded/<name>/patch.diff + meta.json
    sd = os.path.join(ROOT, 'seeded')
    if os.path.isdir(sd):
        for d in sorted(os.listdir(sd)):
            pf = os.path.join(sd, d, 'patch.diff')
            if os.path.exists(os.path.join(sd, d, 'patch_rebased.diff')):
                pf = os.path.join(sd, d, 'patch_rebased.diff')      # the same change, re-made next to a later fix: commit of /repo
            if os.path.exists(pf):
                meta = json.load(open(os.path.join(sd, d, 'meta.json'))) if os.path.exists(os.path.join(sd, d, 'meta.json')) else {}
                if meta.get('superseded'):
                    continue          # made harmless or impossible by a later fix: commit of /repo (reason in meta.json)
                out['S_' + d] = ('@patch', open(pf).read(), '', meta.get('property', d[:3]))
    # every "fix:" commit of /repo reverted: the violation must come back as a VIOLATION
    try:
        log = subprocess.run(['git', '-C', '/repo', 'log', '--format=%h %s', '--grep', '^fix:'], capture_output=True, text=True).stdout
        fk = open(os.path.join(ROOT, 'known_findings.txt')).read()
        for line in log.splitlines():
            h = line.split()[0]
            m = re.search(r'fixed: property=(C\d\d) ' + h, fk)
            diff = subprocess.run(['git', '-C', '/repo', 'show', '--format=', h, '--', 'kingdon'], capture_output=True, text=True).stdout
            out['R_' + h] = ('@patch', diff, '-R', (m.group(1) if m else '?') + ' revert ' + line[8:60])
    except Exception:
        pass
    extra = os.path.join(ROOT, 'tools', 'mutants_extra.json')
    if os.path.exists(extra):
        for k, v in json.load(open(extra)).items():
            out[k] = tuple(v)
    return out


def run_one(name, spec, props, tier, jobs):
    path, old, new, prop = spec
    base = os.path.join(tempfile.gettempdir(), 'kvmut', name.replace('/', '_'))
    shutil.rmtree(base, ignore_errors=True)
    os.makedirs(base)
    worktree = False
    try:
        if path == '@patch':
            # `old` is a unified diff (text), `new` is '' or '-R'.  Applied in a scratch worktree of /repo HEAD with a
            # three-way merge, so that a seed written before a later "fix:" commit still applies next to that fix.
            os.rmdir(base)
            r = subprocess.run(['git', '-C', '/repo', 'worktree', 'add', '--detach', base, 'HEAD'], capture_output=True, text=True)
            if r.returncode != 0:
                os.makedirs(base, exist_ok=True)
                return name, prop, {p: 'PATCH-FAIL worktree ' + r.stderr[-200:] for p in props}
            worktree = True
            r = subprocess.run(['git', '-C', base, 'apply', '--3way'] + ([new] if new else []), input=old, text=True, capture_output=True)
            if r.returncode != 0 or subprocess.run(['git', '-C', base, 'diff', '--name-only', '--diff-filter=U'], capture_output=True, text=True).stdout.strip():
                return name, prop, {p: 'PATCH-FAIL ' + (r.stdout + r.stderr)[-200:] for p in props}
        else:
            shutil.copytree('/repo/kingdon', base + '/kingdon')
            s = open(f'{base}/{path}').read()
            if s.count(old) != 1:
                return name, prop, {p: 'PATCH-FAIL' for p in props}
            open(f'{base}/{path}', 'w').write(s.replace(old, new))
        res = {}
        for p in props:
            env = dict(os.environ, KV_REPO=base, KV_EVIDENCE_DIR=base + '/evidence', KV_REPLAY_DIR=base + '/replays')
            if jobs:
                env['KV_JOBS'] = str(jobs)
            t = time.time()
            r = subprocess.run([os.path.join(ROOT, 'bin', 'check'), p, tier], env=env, capture_output=True, text=True)
            v = [l for l in r.stdout.splitlines() if l.startswith(('VIOLATION', 'KNOWN', 'INCONCL'))]
            keys = [l.strip() for l in r.stdout.splitlines() if l.startswith('  key=')]
            res[p] = f'exit={r.returncode} {time.time()-t:.0f}s ' + ' | '.join(k[:160] for k in keys[:2])
            if r.returncode not in (0, 1):
                res[p] += ' :: ' + ' '.join(v[:1])[:300] + r.stderr[-300:]
        return name, prop, res
    finally:
        if worktree:
            subprocess.run(['git', '-C', '/repo', 'worktree', 'remove', '--force', base], capture_output=True)
        shutil.rmtree(base, ignore_errors=True)


def main():
    ap = argparse.ArgumentParser()
    ap.add_argument('-k', default='')
    ap.add_argument('--tier', default='quick')
    ap.add_argument('--props', default='')
    ap.add_argument('--jobs', type=int, default=0)
    ap.add_argument('--par', type=int, default=1)
    a = ap.parse_args()
    corpus = load_corpus()
    names = [n for n in corpus if a.k in n or any(s and s in n for s in a.k.split(','))]
    def props_of(n):
        if a.props:
            return a.props.split(',')
        return re.findall(r'C\d\d', corpus[n][3]) or []
    with ThreadPoolExecutor(a.par) as ex:
        futs = [ex.submit(run_one, n, corpus[n], props_of(n), a.tier, a.jobs) for n in names]
        for f in futs:
            name, prop, res = f.result()
            for p, r in res.items():
                print(f'{name:28s} [{prop:10s}] {p}: {r}', flush=True)


if __name__ == '__main__':
    main()
