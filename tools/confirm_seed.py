#!/usr/bin/env python3
"""
Confirm a seeded defect delivered by a sub-agent and file it under /verif/seeded/<name>/.
  tools/confirm_seed.py <src_dir> <name>
In a scratch worktree of /repo HEAD (outside /repo and /verif): the patch applies, the pinned
suite still passes (105), demo.py exits 1 on the patched tree and 0 on the unchanged tree.
The worktree is removed afterwards.  Appends what was run to meta.json ("confirmed").
"""
import json, os, shutil, subprocess, sys, tempfile

src, name = sys.argv[1], sys.argv[2]
wt = tempfile.mkdtemp(prefix='kvseed_')
os.rmdir(wt)
run = lambda *a, **k: subprocess.run(*a, capture_output=True, text=True, **k)
log = []
try:
    r = run(['git', '-C', '/repo', 'worktree', 'add', '--detach', wt, 'HEAD'])
    assert r.returncode == 0, r.stderr
    head = run(['git', '-C', '/repo', 'rev-parse', '--short', 'HEAD']).stdout.strip()
    patch = os.path.join(src, 'patch.diff')
    r = run(['git', '-C', wt, 'apply', patch])
    log.append(f'git apply patch.diff on {head}: rc={r.returncode}')
    assert r.returncode == 0, r.stderr
    env = dict(os.environ, PYTHONPATH=wt)
    r = run(['/venv/bin/python', '-m', 'pytest', '-q', '-p', 'no:cacheprovider', '--timeout=900', '-x', '-n', '8'], cwd=wt, env=env)
    tail = r.stdout.strip().splitlines()[-1] if r.stdout.strip() else r.stderr[-200:]
    log.append(f'pinned suite on patched tree: {tail}')
    suite_ok = r.returncode == 0 and '105 passed' in tail
    d1 = run(['/venv/bin/python', os.path.join(src, 'demo.py')], env=env, cwd=src, timeout=1800)
    log.append(f'demo.py on patched tree: exit {d1.returncode}')
    d0 = run(['/venv/bin/python', os.path.join(src, 'demo.py')], env=dict(os.environ, PYTHONPATH='/repo'), cwd=src, timeout=1800)
    log.append(f'demo.py on unchanged tree: exit {d0.returncode}')
    ok = suite_ok and d1.returncode == 1 and d0.returncode == 0
    print('\n'.join(log))
    print('CONFIRMED' if ok else 'NOT CONFIRMED', name)
    if ok:
        dst = os.path.join('/verif/seeded', name)
        os.makedirs(dst, exist_ok=True)
        for f in ('patch.diff', 'demo.py'):
            shutil.copy(os.path.join(src, f), os.path.join(dst, f))
        meta = json.load(open(os.path.join(src, 'meta.json'))) if os.path.exists(os.path.join(src, 'meta.json')) else {}
        meta['confirmed'] = log
        meta['base_commit'] = head
        json.dump(meta, open(os.path.join(dst, 'meta.json'), 'w'), indent=1)
finally:
    run(['git', '-C', '/repo', 'worktree', 'remove', '--force', wt])
    shutil.rmtree(wt, ignore_errors=True)
