#!/usr/bin/env python3
"""
Write the prompts for a round of seeded-defect sub-agents.
  tools/gen_seed_prompts.py <round> [ids...]
Creates /tmp/agent<round>_<ID>.txt, a scratch worktree /tmp/wt<round>/<ID> of /repo HEAD and /tmp/seeds<round>/<ID>.
Each prompt carries ONLY the property text and one-line summaries of the ideas earlier seeds used (so that new
seeds differ); nothing else from /verif.
"""
import json, os, subprocess, sys

ROOT = os.path.dirname(os.path.dirname(os.path.abspath(__file__)))
rnd = sys.argv[1]
ids = sys.argv[2:] or [f'C{i:02d}' for i in range(1, 21)]
props = {}
for line in open(os.path.join(ROOT, 'properties.jsonl')):
    p = json.loads(line)
    props[p['id']] = p

used = {}
sd = os.path.join(ROOT, 'seeded')
for d in sorted(os.listdir(sd)):
    mf = os.path.join(sd, d, 'meta.json')
    if os.path.exists(mf):
        m = json.load(open(mf))
        used.setdefault(m.get('property', d[:3]), []).append((m.get('summary') or '')[:260])

ANGLES = {
    'C01': 'the sign/Cayley tables for unusual constructions (signature= lists with zeros in the middle, start_index, custom bases with two-digit hex labels, d = 7..8 where the table is filled lazily)',
    'C02': 'operand layouts or option combinations (graded mode, cse off, codegen_symbolcls, large dimension, numpy arrays as coefficients) rather than the sign source',
    'C03': 'the less used products (sp, cp, acp, rc) and operands with mixed grades or empty operands',
    'C04': 'grade selection forms, involutions of high grades (4..8), operands with duplicated or empty key tuples',
    'C05': 'custom bases with re-oriented pseudoscalars, r > 1, the regressive product with non-dense operands',
    'C06': 'the symbolic pre-simplification (RationalPolynomial / OperatorDict level) and operands with numeric zeros or repeated symbols',
    'C07': 'the boundary dimensions 5/6 and 6/7, division forms (number / x, x / number, x / y), ZeroDivisionError conditions',
    'C08': 'operators other than the products (duals, inverse, sqrt, outerexp family, norm) under permuted / padded layouts',
    'C09': 'state that lives OUTSIDE the operator caches (Algebra attributes, numspace, registry, cached properties of multivectors, the blades dictionary, module-level caches) and two-thread first calls',
    'C10': 'cache keys (types of the key tuples, lists vs tuples, numpy ints as keys), registered functions, composite operators',
    'C11': 'argument counts 2..3, nested registered functions, grade selection and coefficient access inside f, symbolic=True',
    'C12': 'MultiVector.__call__ binding (positional vs keyword, partially substituted symbols, symbols of several classes), subs',
    'C13': 'graded mode internals, pretty-printing options, wrapper + cse combinations',
    'C14': 'start_index with custom bases, blades dictionary, pss, matrix / dual operations relative to relabelling',
    'C15': 'construction forms (dict keys, grades=, name=, array values), convenience constructors (vector, bivector, evenmv, ...), error clauses',
    'C16': 'container kinds (list of arrays vs ndarray), index forms, setitem, itermv, reflected operators with numpy scalars',
    'C17': 'Polynomial / RationalPolynomial construction, ==, hashing, bool, tosympy, float coefficients',
    'C18': 'frommatrix, custom bases, linear expressions of three inputs, res_like, numeric dtype handling',
    'C19': 'pow with unusual exponents (0, 1, 0.5, -0.5, 2.0), normalized, outersin/outercos of mixed grades, sqrt domain',
    'C20': 'options payload (signature, Cayley table, key-to-index map), nested callables, array-valued subjects, repeated drags',
}

os.makedirs(f'/tmp/seeds{rnd}', exist_ok=True)
os.makedirs(f'/tmp/wt{rnd}', exist_ok=True)
for pid in ids:
    p = props[pid]
    wt = f'/tmp/wt{rnd}/{pid}'
    out = f'/tmp/seeds{rnd}/{pid}'
    os.makedirs(out, exist_ok=True)
    if not os.path.exists(wt):
        subprocess.run(['git', '-C', '/repo', 'worktree', 'add', '--detach', wt, 'HEAD'], check=True, capture_output=True)
    stmt = p.get('statement') or p.get('description') or ''
    q = p.get('quantifier', {})
    q = q.get('text') if isinstance(q, dict) else q
    ul = '\n'.join('  - ' + s for s in used.get(pid, []))
    txt = f'''You are helping to test a verification effort for the Python library "kingdon" (a geometric / Clifford algebra library that generates and caches Python code per key pattern).

You have your own scratch git worktree of the library at: {wt}
Work ONLY inside {wt} and write your deliverables to {out}. Do NOT touch /repo or /verif (do not even read /verif), and do not commit anything.

The semantic property under test:

----
{pid}: {p.get('title')}

{stmt}

Quantifier: {q}
----

PART A (spend about 10 minutes): look for a GENUINE defect.  Try to find an input / configuration / call sequence for which the UNCHANGED library (PYTHONPATH=/repo, or your clean worktree) already violates the property above.  Probe unusual corners: {ANGLES.get(pid, 'unusual configurations')}.  If you find one, write {out}/genuine/demo.py (exit status 1 and a printed explanation on the unchanged tree) and {out}/genuine/note.md (what fails, which code is responsible, why it contradicts the property text).  If you find nothing, say so briefly; do not pad.

PART B: make ONE small, realistic source change inside {wt}/kingdon (the kind of slip a maintainer could make in a refactor or optimisation) such that
  1. the library still imports and the existing test suite still passes completely:
        cd {wt} && PYTHONPATH={wt} /venv/bin/python -m pytest -q -p no:cacheprovider --timeout=900 -x -n 4
     (must report 105 passed), and
  2. the property above is violated, but only when something SPECIFIC happens (a particular key pattern / key order / signature / dimension / option combination / value / multi-step sequence / two cooperating code sites).  A change that ordinary use or the first obvious call would expose at once is NOT wanted.

IMPORTANT - ideas that have ALREADY been used by others for this property (do NOT repeat them or close variants; find a defect in a different code site or of a different nature):
{ul}
Prefer this angle, which earlier seeds have hardly touched: {ANGLES.get(pid, '')}.
Keep the total time moderate (aim to finish within about 30 minutes in all).

Write a demonstration {out}/demo.py: a small stand-alone program (run as `PYTHONPATH=<tree> /venv/bin/python demo.py`) that exits with status 1 (printing what went wrong) on your changed tree and exits 0 on the unchanged tree (`PYTHONPATH=/repo`). Verify BOTH yourself.

Deliverables in {out}:
  - patch.diff : output of `git -C {wt} diff` (your change; must apply with `git apply` to a clean checkout of the same commit)
  - demo.py    : as above
  - meta.json  : {{"property": "{pid}", "summary": "<one sentence: what was changed>", "needs": "<what specific input/sequence/configuration is needed for the violation to manifest>", "ran": ["<commands you ran and their outcome>"]}}
  - genuine/   : only if PART A found something

Finish by leaving the worktree clean (`git -C {wt} checkout -- .`). Report briefly what you did.
'''
    open(f'/tmp/agent{rnd}_{pid}.txt', 'w').write(txt)
print('wrote', len(ids), 'prompts')
