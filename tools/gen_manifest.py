#!/usr/bin/env python3
"""Regenerate /verif/MANIFEST.json from the property modules' metadata (run with any python3)."""
import ast
import json
import os
import sys

ROOT = os.path.dirname(os.path.dirname(os.path.abspath(__file__)))
PROPS = [json.loads(l)['id'] for l in open(os.path.join(ROOT, 'properties.jsonl'))]

# reasons for properties that have no check (yet / at all)
NOT_APPLICABLE = json.load(open(os.path.join(ROOT, 'tools', 'not_applicable.json')))


def meta(path):
    tree = ast.parse(open(path).read())
    out = {'doc': ast.get_docstring(tree) or ''}
    for node in tree.body:
        if isinstance(node, ast.Assign) and len(node.targets) == 1 and isinstance(node.targets[0], ast.Name):
            try:
                out[node.targets[0].id] = ast.literal_eval(node.value)
            except Exception:
                pass
    return out


def main():
    checks, na = [], []
    engines = {}
    for pid in PROPS:
        path = os.path.join(ROOT, 'kv', 'props', pid.lower() + '.py')
        if not os.path.exists(path):
            na.append({'property_id': pid, 'reason': NOT_APPLICABLE.get(pid, 'no check built yet in this round')})
            continue
        m = meta(path)
        if m.get('DISABLED'):
            na.append({'property_id': pid, 'reason': m['DISABLED']})
            continue
        checks.append({
            'property_id': pid,
            'quick_cmd': f'bin/check {pid} quick',
            'thorough_cmd': f'bin/check {pid} thorough',
            'evidence_file': f'/verif/evidence/{pid}.json',
            'replay_cmd_template': 'bin/check --replay {path}',
            'engine': m.get('ENGINE', 'kv (z3 proxy execution)'),
            'level_claimed': {
                'category': m['LEVEL'],
                'text': m.get('LEVEL_TEXT') or ' '.join(m['doc'].split()),
                'design_ref': f'DESIGN.md section 3, {pid}',
            },
            'level_note': m.get('LEVEL_NOTE') or ('; '.join(m.get('ASSUMPTIONS', [])) + ' | outside the bound: ' + '; '.join(m.get('OUTSIDE', []))),
            'technique': m.get('TECHNIQUE', 'bounded SMT (z3) over symbolic execution of the real generated code via solver-term proxies; sat models replayed on exact rationals'),
        })
        for e in m.get('ENGINES', ['A']):
            engines.setdefault(e, []).append(pid)
    eng_desc = {
        'A': ('kv.sym + kv.core', 'z3-term proxy values pushed through kingdon\'s real public API and freshly generated functions; one validity query per case; concrete replay of sat models'),
        'B': ('kv.bv', 'kingdon\'s real term-filter closures executed on z3 bit-vector blade indices (all blade pairs of width W at once)'),
        'C': ('kv.ch', 'CrossHair (symbolic execution of Python with z3) on generated harness modules over kingdon/polynomial.py'),
        'F': ('kv.sym.explore', 'fork-mode path exploration: value inspections become solver-checked decisions, all feasible paths re-executed'),
        'S': ('kv.sy2z3', 'structural translation of the sympy expressions kingdon returns into z3 terms'),
    }
    manifest = {
        'version': 1,
        'setup_cmd': 'bin/ensure_env.sh',
        'hooks': {
            'guard': 'KINGDON_VERIF',
            'enable': 'no source hooks are needed: checks import kingdon from /repo\'s working tree and observe it by run-time patching from /verif; KINGDON_VERIF=1 is exported by bin/check but read by nothing in /repo',
            'baseline_off_cmd': 'cd /repo && /venv/bin/python -m pytest -ra -q -p no:cacheprovider --timeout=900 --continue-on-collection-errors',
            'source_commits': [],
            'add_only': True,
        },
        'engines': [{'name': k, 'path': eng_desc[k][0], 'serves_properties': sorted(set(v)), 'kind_free_text': eng_desc[k][1]}
                    for k, v in sorted(engines.items()) if k in eng_desc],
        'checks': checks,
        'not_applicable': na,
        'notes': 'Solver-based checking of the real code (z3 / CrossHair). Exit 0 = held on everything explored, 1 = VIOLATION (replayed), '
                 '2 = inconclusive or harness error (never reported as pass). Known findings: /verif/known_findings.txt.',
    }
    with open(os.path.join(ROOT, 'MANIFEST.json'), 'w') as f:
        json.dump(manifest, f, indent=1)
    try:
        import jsonschema
        jsonschema.validate(manifest, json.load(open(os.path.join(ROOT, 'schemas', 'MANIFEST.schema.json'))))
        print('MANIFEST.json valid;', len(checks), 'checks,', len(na), 'not applicable')
    except ImportError:
        print('MANIFEST.json written (jsonschema not available to validate)')


if __name__ == '__main__':
    main()
