#!/usr/bin/env python3
"""
Prompts for sub-agents that only HUNT for genuine defects of the current /repo tree with respect to one property.
  tools/gen_hunt_prompts.py <round> [ids...]
Each prompt holds the property text, the list of defects already known for it (fixed or open, from known_findings.txt:
facts about the library) and a scratch worktree of /repo HEAD; nothing else from /verif.
"""
import json, os, re, subprocess, sys
ROOT = os.path.dirname(os.path.dirname(os.path.abspath(__file__)))
rnd = sys.argv[1]
ids = sys.argv[2:] or [f'C{i:02d}' for i in range(1, 21)]
props = {json.loads(l)['id']: json.loads(l) for l in open(os.path.join(ROOT, 'properties.jsonl'))}
known = {}
for line in open(os.path.join(ROOT, 'known_findings.txt')):
    m = re.match(r'(open|fixed): property=(C\d\d) (.*)', line.strip())
    if m:
        txt = re.sub(r'^key=\S+ ', '', m.group(3))
        txt = re.sub(r'^[0-9a-f]{7} ', '', txt)
        txt = re.sub(r'\((key|keys) [^)]*\)', '', txt)
        known.setdefault(m.group(2), []).append(('still present' if m.group(1) == 'open' else 'already repaired') + ': ' + txt[:300])
os.makedirs(f'/tmp/hunt{rnd}', exist_ok=True)
os.makedirs(f'/tmp/wt{rnd}', exist_ok=True)
for pid in ids:
    p = props[pid]
    wt = f'/tmp/wt{rnd}/{pid}'
    out = f'/tmp/hunt{rnd}/{pid}'
    os.makedirs(out, exist_ok=True)
    if not os.path.exists(wt):
        subprocess.run(['git', '-C', '/repo', 'worktree', 'add', '--detach', wt, 'HEAD'], check=True, capture_output=True)
    q = p.get('quantifier', {})
    q = q.get('text') if isinstance(q, dict) else q
    kl = '\n'.join('  - ' + k for k in known.get(pid, [])) or '  (none so far)'
    other = '\n'.join(f'  - [{k}] ' + t[:160] for k, v in known.items() if k != pid for t in v[:2])
    txt = f'''You are reviewing the Python library "kingdon" (a geometric / Clifford algebra library that generates and caches Python code per key pattern) against ONE stated property. Your own copy of the library is at {wt} (a git worktree; read the source there; run code with `PYTHONPATH={wt} /venv/bin/python`). Write your results to {out}. Do NOT touch /repo or /verif (do not even read /verif), and do not change the library source.

The property:

----
{pid}: {p.get('title')}

{p.get('statement') or p.get('description')}

Quantifier: {q}
----

TASK: find inputs / configurations / call sequences for which the library, AS IT IS, violates this property: a wrong value, a silently dropped or misplaced coefficient, a result that depends on something the property says it must not depend on, or an exception where the property promises a result (or no exception where it promises one). Read the relevant source carefully (kingdon/algebra.py, multivector.py, codegen.py, operator_dict.py, polynomial.py, taperecorder.py, matrixreps.py, graph.py as relevant) and think about which inputs INSIDE the quantifier above take unusual paths: boundary dimensions (0, 1, 6/7), empty multivectors, non-canonical key orders, degenerate metrics with several null vectors, custom bases and start indices, option combinations (cse, graded, wrapper, codegen_symbolcls, simp_func), value types (int, float, Fraction, complex, numpy scalars and arrays, sympy expressions), repeated or interleaved calls. Then TEST your suspicions with small scripts; differential checks against an independent, brute-force model that you write yourself are the most productive.

Already known for this property (do not report these again):
{kl}

For orientation, defects already known elsewhere in the library (also not to be re-reported):
{other}

Rules for a report: it must be inside the property's own wording and quantifier (quote the words it contradicts), reproducible with a stand-alone script, and about the library as it is (no source changes). Floating-point rounding in the last digits is not a defect. If you find nothing after an honest search, say so briefly - do not pad.

Deliver per finding (number them): {out}/finding<N>/demo.py (exit status 1 and a printed explanation when the defect is present; exit 0 otherwise) and {out}/finding<N>/note.md (what fails, the responsible code lines, the words of the property it contradicts, and - if you see one - the smallest sensible repair). Aim for about 30 minutes in all. Finish with a brief summary.
'''
    open(f'/tmp/hunt{rnd}_{pid}.txt', 'w').write(txt)
print('wrote', len(ids))
