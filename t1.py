from kingdon import Algebra
import sympy, numpy as np
x = sympy.Symbol('x')
alg = Algebra(2)
v = alg.vector([2, 3])
for name in ['op','ip','lc','rc','sp','cp','acp','gp']:
    try:
        print(name, getattr(v, name)(x), '|', getattr(alg, name)(x, v))
    except Exception as e:
        print(name, 'EXC', repr(e))
print(v ^ x, v | x, v * x)
try: print(x ^ v)
except Exception as e: print('EXC', repr(e))
try: print(x | v)
except Exception as e: print('EXC', repr(e))
try: print(x * v)
except Exception as e: print('EXC', repr(e))
