#!/bin/sh
# Idempotent, offline bootstrap of the overlay interpreter used by every check:
#   /verif/.venv  = venv of /venv/bin/python (which has kingdon's own dependencies and an
#   editable install of /repo) + z3-solver, cvc5, crosshair-tool from the offline wheelhouse.
set -e
V=/verif/.venv
WH=/opt/veriftools/wheels
if [ -x "$V/bin/python" ] && "$V/bin/python" -c 'import z3, crosshair, kingdon, jsonschema' 2>/dev/null; then
    exit 0
fi
exec 9>/tmp/.kv_env.lock
flock 9
if [ -x "$V/bin/python" ] && "$V/bin/python" -c 'import z3, crosshair, kingdon, jsonschema' 2>/dev/null; then
    exit 0
fi
rm -rf "$V"
/venv/bin/python -m venv "$V"
SP=$("$V/bin/python" -c 'import sysconfig; print(sysconfig.get_paths()["purelib"])')
echo "import site; site.addsitedir('/venv/lib/python3.12/site-packages')" > "$SP/_overlay.pth"
PIP_NO_INDEX=1 "$V/bin/pip" install -q --no-index --find-links "$WH" z3-solver crosshair-tool cvc5 jsonschema >/dev/null 2>&1 || \
PIP_NO_INDEX=1 "$V/bin/pip" install -q --no-index --find-links "$WH" z3-solver crosshair-tool jsonschema
"$V/bin/python" -c 'import z3, crosshair, kingdon; print("env ok", z3.get_version_string(), kingdon.__file__)'
