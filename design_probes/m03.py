import sys; sys.setrecursionlimit(100000)
import time, z3, random, warnings
warnings.simplefilter('ignore')
from kingdon import Algebra
import kingdon; print(kingdon.__file__)
from kingdon.multivector import MultiVector
random.seed(1)
def run(sig, keys, rl=80000000):
    alg = Algebra(*sig)
    a = MultiVector.fromkeysvalues(alg, tuple(keys), [z3.Real(f'a{k}') for k in keys])
    t=time.time(); ai = a.inv(); t1=time.time()-t
    p = dict((a*ai).items())
    dens=set(); seen=set(); st=[v for v in ai.values() if z3.is_expr(v)]
    while st:
        e=st.pop()
        if e.get_id() in seen: continue
        seen.add(e.get_id())
        if e.decl().kind()==z3.Z3_OP_DIV: dens.add(e.arg(1))
        if e.decl().kind()==z3.Z3_OP_POWER: dens.add(e.arg(0))
        st.extend(e.children())
    s = z3.Solver(); s.set('rlimit', rl)
    for dd in dens: s.add(dd != 0)
    s.add(z3.Or([p.get(k,0) != (1 if k==0 else 0) for k in set(p)|{0}]))
    t=time.time(); r = s.check()
    print(sig, keys, 'codegen', round(t1,2), 'check', r, round(time.time()-t,2), flush=True)
    return str(r)
pats = [(0,1,6),(1,6,24),(0,1,2,12),(0,7,24),(1,14),(0,15,16),(3,5,30),(0,1,30)]
for k in pats: run((5,), k)
for i in range(6):
    k = tuple(random.sample(range(32), random.randint(3,5))); run((4,1), k)
