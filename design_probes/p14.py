exec(open('p13.py').read().split("UF = {n:")[0])
import numpy as np
alg = Algebra(2,0,1)
def lab(name, keys): return MultiVector.fromkeysvalues(alg, tuple(keys), [SV(z3.Real(f'{name}{k}')) for k in keys])
CTX.prefix=[]; CTX.pos=0; CTX.path=[]
pt = lab('p', (3,5,6)); pt2 = lab('q', (3,5,6)); full = lab('f', alg.canon2bin.values())
arr = np.empty((3,2), dtype=object)
for i in range(3):
    for j in range(2): arr[i,j] = SV(z3.Real(f'r{i}_{j}'))
pc = alg.vector(arr)
try:
    g = alg.graph(0xff, pt, 'a', pt2, [full, (lambda: pt & pt2)], pc, lambda: pt.dual(), camera=full)
    print('subjects', g.subjects)
    print('options', g.options)
    print('dp', g.draggable_points, g.draggable_points_idxs)
    new = [{'mv': [SV(z3.Real(f'n{i}')) for i in range(8)]}, {'mv': [SV(z3.Real(f'm{i}')) for i in range(8)]}]
    g.draggable_points = new
    print('after', pt.values(), pt2.values())
    print('decisions', CTX.prefix, [str(p) for p in CTX.path][:6])
    print('subjects after', g.subjects[-1])
except Exception as e:
    import traceback; traceback.print_exc()
