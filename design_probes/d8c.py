import random, itertools, warnings, sys, traceback
from fractions import Fraction
import sympy
from kingdon import Algebra
from kingdon.multivector import MultiVector
warnings.simplefilter('ignore')
random.seed(11)
def coeffs(alg, mv):
    if not isinstance(mv, MultiVector): mv = MultiVector.fromkeysvalues(alg,(0,),[mv])
    out = [0]*2**alg.d
    for k, v in mv.items(): out[k] += v
    return out
binops = ['gp','sw','cp','acp','ip','sp','lc','rc','op','rp','proj','add','sub','div']
unops = ['inv','neg','reverse','involute','conjugate','polarity','unpolarity','hodge','unhodge','normsq','outerexp','outersin','outercos','outertan']
bad = 0
# C08: permutation / zero padding invariance
for sig in [(2,),(1,1),(2,0,1),(3,),(1,1,1)]:
    for trial in range(10):
        alg = Algebra(*sig, wrapper=lambda f: f)
        n = 2**alg.d
        def rnd():
            k = random.randint(1, min(n,4))
            keys = random.sample(range(n), k)
            return keys, [Fraction(random.randint(1,6)) for _ in keys]
        def variant(keys, vals):
            idx = list(range(len(keys))); random.shuffle(idx)
            k2 = [keys[i] for i in idx]; v2 = [vals[i] for i in idx]
            extra = [k for k in range(n) if k not in keys and random.random()<0.4]
            pos = 0
            for e in extra:
                p = random.randint(0, len(k2)); k2.insert(p, e); v2.insert(p, Fraction(0))
            return k2, v2
        ka, va = rnd(); kb, vb = rnd()
        ka2, va2 = variant(ka, va); kb2, vb2 = variant(kb, vb)
        for opn in binops + unops:
            def run(k1,v1,k2,v2):
                A = Algebra(*sig, wrapper=lambda f: f)
                try:
                    a = MultiVector.fromkeysvalues(A, tuple(k1), list(v1))
                    if opn in unops: return coeffs(A, getattr(A,opn)(a))
                    b = MultiVector.fromkeysvalues(A, tuple(k2), list(v2))
                    return coeffs(A, getattr(A,opn)(a,b))
                except Exception as e:
                    return 'EXC:'+type(e).__name__
            r1 = run(ka,va,kb,vb); r2 = run(ka2,va2,kb2,vb2)
            same = (r1 == r2) or (not isinstance(r1,str) and not isinstance(r2,str) and all(abs(complex(x)-complex(y))<1e-9 for x,y in zip(r1,r2)))
            if not same:
                bad += 1
                print('C08 DIFF', sig, opn, ka,va,kb,vb,'|',ka2,va2,kb2,vb2,'->', r1, r2)
        if bad>15: sys.exit()
print('C08 bad', bad)
