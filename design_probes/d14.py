import itertools, random, warnings
warnings.simplefilter('ignore')
from kingdon import Algebra
random.seed(9)
def parity(seq):
    seq=list(seq); n=0
    for i in range(len(seq)):
        for j in range(i+1,len(seq)):
            if seq[i]>seq[j]: n+=1
    return n%2
def refsign(sigof, w1, w2):
    """product of words (tuples of generator ints): returns (sign, sorted tuple)."""
    seq=list(w1)+list(w2); sign=1
    # bubble sort counting swaps, cancel equal neighbours
    changed=True
    while changed:
        changed=False
        for i in range(len(seq)-1):
            if seq[i]>seq[i+1]:
                seq[i],seq[i+1]=seq[i+1],seq[i]; sign=-sign; changed=True
    out=[]; i=0
    while i<len(seq):
        if i+1<len(seq) and seq[i]==seq[i+1]:
            sign*=sigof[seq[i]]; i+=2
        else: out.append(seq[i]); i+=1
    return sign, tuple(out)
def check(A, label):
    st=A.start_index
    sigof={st+i:int(A.signature[i]) for i in range(A.d)}
    bad=0
    words={k: tuple(int(c,16) for c in name[1:]) for k,name in A.bin2canon.items()}
    for I in range(2**A.d):
        for J in range(2**A.d):
            s, out = refsign(sigof, words[I], words[J])
            K = I^J
            # out sorted vs kingdon spelling words[K]
            assert tuple(sorted(words[K]))==out, (words[K], out)
            s2 = s * (-1 if parity(words[K]) else 1)
            if A.signs[I,J] != s2: bad+=1
    # cayley
    for (eI,eJ), v in A.cayley.items():
        I,J=A.canon2bin[eI],A.canon2bin[eJ]
        s=A.signs[I,J]
        exp = '0' if s==0 else ('-' if s<0 else '')+A.bin2canon[I^J]
        if v!=exp: bad+=1
    print(label, 'bad', bad)
for sig in [[1,-1,0],[0,-1,1],[-1,0,0,1],[0,0,1,1]]:
    check(Algebra(signature=sig), f'sig{sig}')
    check(Algebra(signature=sig, start_index=2), f'sig{sig} start2')
for name in ('2DPGA','3DPGA','STAP'): check(Algebra.fromname(name), name)
def randbasis(p,q,r, start):
    d=p+q+r
    gens=[format(start+i,'x') for i in range(d)]
    order=gens[:]; random.shuffle(order)
    basis=['e']+['e'+g for g in order]
    for g in range(2,d+1):
        bl=[]
        for c in itertools.combinations(gens,g):
            c=list(c); random.shuffle(c); bl.append('e'+''.join(c))
        random.shuffle(bl); basis+=bl
    return basis
for (p,q,r) in [(2,0,0),(1,1,1),(3,0,1),(2,1,1),(2,2,1)]:
    for st in (0,1,3):
        b=randbasis(p,q,r,st)
        try:
            A=Algebra(p,q,r,basis=b); check(A, f'R{p}{q}{r} st{st} {b[:6]}')
        except Exception as e:
            print('construct/exc', p,q,r,st, type(e).__name__, e)
check(Algebra(7), 'R7 lazy') if False else None
