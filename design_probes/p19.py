import z3, sympy, warnings, numpy as np, time
warnings.simplefilter('ignore')
from kingdon import Algebra, expr_as_matrix
from kingdon.multivector import MultiVector
exec(open('p16.py').read().split("random.seed(2)")[0].split("assume = []")[1].join(["assume = []", ""])) if False else None
assume=[]
def sy2z3(e, env):
    e = sympy.sympify(e)
    if e.is_Symbol: return env.setdefault(e.name, z3.Real(e.name))
    if e.is_Integer: return z3.RealVal(int(e))
    if e.is_Rational: return z3.Q(int(e.p), int(e.q))
    if e.is_Float:
        n, d = float(e).as_integer_ratio(); return z3.Q(n, d)
    if e.is_Add: return z3.Sum([sy2z3(a, env) for a in e.args])
    if e.is_Mul:
        r = z3.RealVal(1)
        for a in e.args: r = r * sy2z3(a, env)
        return r
    if e.is_Pow and e.args[1].is_Integer and int(e.args[1])>=0:
        r = z3.RealVal(1)
        for _ in range(int(e.args[1])): r = r*sy2z3(e.args[0], env)
        return r
    raise NotImplementedError(repr(e))
def check(alg, f, inputs, res_like=None, label=''):
    t=time.time()
    A, y = expr_as_matrix(f, *inputs, res_like=res_like)
    x = inputs[-1]
    env={}
    xs = [sy2z3(v, env) for v in x.values()]
    A = np.array(A.tolist() if hasattr(A,'tolist') else A, dtype=object)
    s = z3.Solver()
    diffs=[]
    for i,(k,yi) in enumerate(y.items()):
        lhs = z3.Sum([sy2z3(A[i,j], env)*xs[j] for j in range(len(xs))])
        diffs.append(lhs != sy2z3(yi, env))
    # y == f(inputs)
    yd = f(*inputs)
    for k, yi in y.items():
        diffs.append(sy2z3(yi, env) != sy2z3(getattr(yd, alg.bin2canon[k]), env))
    s.add(z3.Or(diffs)); print(label, A.shape, s.check(), round(time.time()-t,2))
for sig in [(3,), (2,0,1), (1,1)]:
    alg = Algebra(*sig)
    R = alg.evenmv(name='R'); x = alg.vector(name='x'); B = alg.bivector(name='B'); X = alg.multivector(name='X')
    check(alg, lambda R, x: R >> x, [R, x], label=f'{sig} sw sym')
    check(alg, lambda R, x: R * x, [R, X], label=f'{sig} gp full')
    check(alg, lambda B, x: B.cp(x), [B, x], label=f'{sig} cp')
    check(alg, lambda R, x: (R >> x).grade(1) + x.dual().undual() if alg.r<=1 else R>>x, [R, x], label=f'{sig} mixed')
    check(alg, lambda R, x: R >> x, [R, x], res_like=alg.vector(e1=1) if sig!=(2,0,1) else alg.vector(e1=1), label=f'{sig} res_like')
    Rn = alg.evenmv([sympy.Rational(i+1,3) for i in range(len(alg.indices_for_grades[tuple(range(0,alg.d+1,2))]))])
    Rn = alg.evenmv([float(i+1)/4 for i in range(len(Rn))])
    check(alg, lambda R, x: R >> x, [Rn, x], label=f'{sig} numeric R')
    Ra = alg.evenmv(np.arange(len(Rn)*2, dtype=float).reshape(len(Rn),2)+1)
    try:
        A, y = expr_as_matrix(lambda R, x: R >> x, Ra, x); print(sig, 'array R', np.asarray(A).shape, type(A))
    except Exception as e: print(sig, 'array R EXC', type(e).__name__, str(e)[:100])
