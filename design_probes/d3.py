import numpy as np, itertools
from kingdon import Algebra
from kingdon.multivector import MultiVector
def tryit(label, f):
    try:
        print(label, '->', f())
    except BaseException as e:
        print(label, 'RAISED', type(e).__name__, e)
# C14 rejection
A = Algebra(signature=[1,-1]); B = Algebra(signature=[-1,1])
tryit('C14 A==B', lambda: A == B)
tryit('C14 A.e1*B.e1', lambda: A.blades.e1 * B.blades.e1)
tryit('C14 B.e1*A.e1', lambda: B.blades.e1 * A.blades.e1)
C = Algebra(2); D = Algebra(2, start_index=0)
tryit('C14 start idx C==D', lambda: C == D)
tryit('C14 C.e1*D.e1', lambda: C.blades.e1 * D.blades.e1)
E = Algebra(2,0,1); F = Algebra.fromname('2DPGA')
tryit('C14 E==F', lambda: E == F)
tryit('C14 E.e12*F.e12', lambda: E.blades.e12 * F.blades.e12)
G = Algebra(2); H = Algebra(1,1)
tryit('C14 G*H', lambda: G.blades.e1 * H.blades.e1)
# unary/ n-ary path: register with different algebra
# C18 custom-basis matrix reps
def homo(alg, label):
    bad = []
    blades = [alg.blades[b] for b in alg.canon2bin]
    for x, y in itertools.product(blades, repeat=2):
        lhs = (x*y).asmatrix() if (x*y) else 0*x.asmatrix()
        rhs = x.asmatrix() @ y.asmatrix()
        if not np.array_equal(np.array(lhs, dtype=float), np.array(rhs, dtype=float)):
            bad.append((list(x.keys()), list(y.keys())))
    print('C18', label, 'bad pairs', len(bad), bad[:3])
homo(Algebra(3), 'R3')
homo(Algebra(2,0,1), 'R201')
homo(Algebra.fromname('2DPGA'), '2DPGA')
homo(Algebra.fromname('3DPGA'), '3DPGA')
homo(Algebra(signature=[1,0,-1]), 'sig[1,0,-1]')
homo(Algebra(signature=[-1,1,0,1]), 'sig[-1,1,0,1]')
homo(Algebra(1,1,1), 'R111')
homo(Algebra(2,1,2), 'R212')
homo(Algebra(3, basis=['e','e2','e1','e3','e12','e13','e23','e123']), 'R3 reordered vecs')
homo(Algebra(3, basis=['e','e1','e2','e3','e12','e31','e23','e123']), 'R3 e31')
# first column
alg = Algebra.fromname('3DPGA')
x = alg.multivector(values=list(range(1,17)))
tryit('C18 frommatrix roundtrip 3DPGA', lambda: list(MultiVector.frommatrix(alg, x.asmatrix()).values()))
alg = Algebra(signature=[-1,1,0,1])
x = alg.multivector(values=list(range(1,17)))
tryit('C18 frommatrix roundtrip sig', lambda: list(MultiVector.frommatrix(alg, x.asmatrix()).values()))
