import os, shutil, subprocess
from concurrent.futures import ThreadPoolExecutor
MUTANTS = {
 'N01_exp_ge': ('kingdon/multivector.py', "elif isinstance(ll, (float, int)) and ll > 0:", "elif isinstance(ll, (float, int)) and ll >= 0:", 'C19'),
 'N02_dual_r_ge1': ('kingdon/multivector.py', "        elif kind == 'hodge' or kind == 'auto' and self.algebra.r == 1:\n            return self.hodge()", "        elif kind == 'hodge' or kind == 'auto' and self.algebra.r >= 1:\n            return self.hodge()", 'C05'),
 'N03_pow_neg': ('kingdon/multivector.py', "            res = x = self.inv()\n            power *= -1", "            res = x = self.inv()\n            power *= -1\n            power += (power > 2)", 'C19'),
 'N04_setitem_list': ('kingdon/multivector.py', "            for self_values, other_value in zip(self.values(), values):\n                self_values[indices] = other_value", "            for self_values, other_value in zip(self.values(), reversed(values)):\n                self_values[indices] = other_value", 'C16'),
 'N05_getitem_list': ('kingdon/multivector.py', "return_values = values.__class__(value[item] for value in values)", "return_values = values.__class__(value[item[:1]] for value in values)", 'C16'),
 'N06_matrix_N_order': ('kingdon/matrixreps.py', "            elif s == -1:\n                Ss.append(SsN.pop(0))", "            elif s == -1:\n                Ss.append(SsP.pop(0) if SsP else SsN.pop(0))", 'C18'),
 'N07_expr_res_like': ('kingdon/matrixreps.py', "for k in res_like.keys()})", "for k in sorted(res_like.keys())})", 'C18?'),
 'N08_graph_idxs': ('kingdon/graph.py', "        return [j for j, s in enumerate(self.pre_subjects) if isinstance(s, MultiVector)]", "        return [j for j, s in enumerate(self.pre_subjects) if isinstance(s, MultiVector) and len(s)]", 'C20?'),
 'N09_graph_inplace': ('kingdon/graph.py', "                    val = new_vals[self.key2idx[k]]", "                    val = new_vals[k]", 'C20'),
 'N10_sqrt_c2inv': ('kingdon/codegen.py', "*zip(c2_inv.values(), [f'0.5 / {cp}'])]", "*zip(c2_inv.values(), [f'0.5 * {cp}'])]", 'C19'),
 'N11_normsq_rev': ('kingdon/codegen.py', "def codegen_normsq(x):\n    return x * ~x", "def codegen_normsq(x):\n    return ~x * x", 'C06'),
 'N12_proj': ('kingdon/codegen.py', "    return (x | y) * ~y", "    return (x | y) * y", 'C06'),
 'N13_do_codegen_cse_branch': ('kingdon/codegen.py', "    if not algebra.cse and any(isinstance(v, str) for v in res.values()):", "    if not algebra.cse and all(isinstance(v, str) for v in res.values()):", 'C13 equiv?'),
 'N14_unary_wrapper_path': ('kingdon/operator_dict.py', "        issymbolic = mv.issymbolic\n        if issymbolic or not mv.algebra.wrapper:\n            values_out = func(mv.values())", "        issymbolic = mv.issymbolic\n        if issymbolic or not mv.algebra.wrapper:\n            values_out = func(list(mv.values()))", 'equiv'),
 'N15_filter_simp': ('kingdon/operator_dict.py', "if (simpv := self.algebra.simp_func(v)))", "if (simpv := self.algebra.simp_func(v)) and k != 0 or k == 0 and v != 1)", 'C12'),
 'N16_registry_scalar': ('kingdon/taperecorder.py', "            expr = f'{func.__name__}({self.expr}, ({other},))'", "            expr = f'{func.__name__}({self.expr}, ({other}+0,))'", 'equiv'),
 'N17_tape_grade': ('kingdon/taperecorder.py', "indices_keys = [(idx, k) for idx, k in enumerate(self.keys()) if k in basis_blades]", "indices_keys = [(idx, k) for idx, k in enumerate(self.keys()) if k in basis_blades or k == 0 and 0 in grades and False]", 'equiv'),
 'N18_outerexp_break': ('kingdon/codegen.py', "    while j <= k:\n        Wj = Ws[-1] ^ x", "    while j < k:\n        Wj = Ws[-1] ^ x", 'C19'),
 'N19_div_zero_check': ('kingdon/codegen.py', "    if not denom:\n        raise ZeroDivisionError", "    if not denom and len(x) > 1:\n        raise ZeroDivisionError", 'C07'),
 'N20_indices_for_grades': ('kingdon/multivector.py', "                for k in self.algebra.indices_for_grades[grades] if k in self.keys()}", "                for k in self.algebra.indices_for_grades[grades] if k in self.keys() and (k or len(grades) < 3)}", 'C04'),
 'N21_hodge_complement': ('kingdon/codegen.py', "    return {(key_dual := len(x.algebra) - 1 - eI): -v if x.algebra.signs[eI, key_dual] < 0 else v", "    return {(key_dual := (len(x.algebra) - 1) ^ eI): -v if x.algebra.signs[eI, key_dual] <= 0 else v", 'equiv'),
 'N22_blade2canon_outside': ('kingdon/algebra.py', "        if canon_blade:\n            swaps, *_ = _swap_blades(basis_blade, '', target=canon_blade)\n            return canon_blade, swaps", "        if canon_blade:\n            swaps, *_ = _swap_blades(basis_blade, '', target=canon_blade)\n            return canon_blade, swaps + (len(basis_blade) > 4)", 'C15'),
 'N23_call_binary_scalar': ('kingdon/operator_dict.py', "        mv2 = mv2 if isinstance(mv2, MultiVector) else MultiVector.fromkeysvalues(self.algebra, (0,), [mv2])", "        mv2 = mv2 if isinstance(mv2, MultiVector) else MultiVector.fromkeysvalues(self.algebra, (0,), [mv2] if mv2 else [0])", 'equiv-ish'),
 'N24_cp_antisym': ('kingdon/codegen.py', "    filter_func = lambda kx, ky, k_out: (algebra.signs[kx, ky] - algebra.signs[ky, kx])\n", "    filter_func = lambda kx, ky, k_out: (algebra.signs[kx, ky] - algebra.signs[ky, kx]) and kx != ky\n", 'equiv'),
}
def run(name):
    path, old, new, prop = MUTANTS[name]
    d = f'/tmp/mut/{name}'
    shutil.rmtree(d, ignore_errors=True); os.makedirs(d)
    shutil.copytree('/repo/kingdon', d + '/kingdon'); shutil.copytree('/repo/tests', d + '/tests')
    s = open(f'{d}/{path}').read()
    if s.count(old) != 1: return name, prop, f'PATCH-FAIL count={s.count(old)}'
    open(f'{d}/{path}', 'w').write(s.replace(old, new))
    env = dict(os.environ, PYTHONPATH=d)
    r = subprocess.run(['/venv/bin/python', '-m', 'pytest', '-q', '-p', 'no:cacheprovider', '-x', '--timeout=600', 'tests'], cwd=d, env=env, capture_output=True, text=True)
    tail = r.stdout.strip().splitlines()[-1] if r.stdout.strip() else r.stderr[-200:]
    failed = [l for l in r.stdout.splitlines() if l.startswith('FAILED')]
    shutil.rmtree(d, ignore_errors=True)
    return name, prop, ('SURVIVES ' if r.returncode == 0 else 'killed   ') + tail + ' ' + ' '.join(failed[:2])
with ThreadPoolExecutor(8) as ex:
    for name, prop, res in ex.map(run, MUTANTS):
        print(f'{name:28s} {prop:10s} {res}', flush=True)
