import faulthandler; faulthandler.dump_traceback_later(60, exit=True)
exec(open('p13.py').read().split("UF = {n:")[0])
import math, time
def lift_snap(o):
    if isinstance(o, (float, np.floating)):
        f = Fraction(float(o)); g = f.limit_denominator(10**6)
        if f == g or abs(f-g) <= abs(f)*Fraction(1,10**12): f = g
        return z3.Q(f.numerator, f.denominator)
    return _lift(o)
_lift = lift
globals()['lift'] = lift_snap
for sig, grades in [((3,),(2,)), ((4,),(1,)), ((4,),(2,)), ((6,),(2,))]:
    alg = Algebra(*sig)
    keys = alg.indices_for_grades[grades]
    x = MultiVector.fromkeysvalues(alg, keys, [SV(z3.Real(f'x{k}')) for k in keys])
    CTX.assume=[]
    t=time.time()
    impl = dict(x.outerexp().items())
    # spec
    terms = [alg.scalar([1])]; w = None
    spec = {0: SV(z3.RealVal(1))}
    w = x; k = 1
    while k <= alg.d and w:
        for kk, v in w.items():
            spec[kk] = spec.get(kk, 0) + v * Fraction(1, math.factorial(k))
        w = w ^ x; k += 1
        w = w.filter(lambda v: True) if False else w
    s = z3.Solver(); s.set('rlimit', 50000000)
    allk = set(impl)|set(spec)
    s.add(z3.Or([ (lift_snap(impl.get(kk,0)) if not isinstance(impl.get(kk,0),SV) else impl[kk].t) != (spec[kk].t if isinstance(spec.get(kk,0),SV) else lift_snap(spec.get(kk,0))) for kk in allk]))
    print(sig, grades, len(impl), s.check(), round(time.time()-t,2), flush=True)
    sn = dict(x.outersin().items()); cs = dict(x.outercos().items())
    if alg.d > 4: continue
    tn = dict(x.outertan().items())
    tc = dict((x.outertan()*x.outercos()).items())
    s = z3.Solver(); s.set('rlimit', 50000000); s.add(*CTX.assume)
    allk=set(tc)|set(sn)
    tolift = lambda v: v.t if isinstance(v,SV) else lift_snap(v)
    s.add(z3.Or([tolift(tc.get(kk,0)) != tolift(sn.get(kk,0)) for kk in allk]))
    print('   tan*cos==sin', s.check(), 'assumptions', len(CTX.assume))
