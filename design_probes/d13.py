import warnings; warnings.simplefilter('ignore')
from kingdon import Algebra
for A in [Algebra(2), Algebra(1,1), Algebra(2,0,1), Algebra(3,0,1), Algebra(0,1,2), Algebra.fromname('2DPGA'), Algebra.fromname('3DPGA'), Algebra.fromname('STAP'), Algebra(3, basis=['e','e1','e2','e3','e32','e31','e12','e321']), Algebra(5), Algebra(4,1)]:
    bad=[]
    for name in A.canon2bin:
        E = A.blades[name]
        w = E ^ E.hodge()
        d = w - A.pss
        if any(v != 0 for v in d.values()): bad.append(name)
        u = E.hodge().unhodge() - E
        if any(v != 0 for v in u.values()): bad.append(('rt',name))
    x = A.multivector(values=list(range(1,2**A.d+1)))
    i1 = (x & A.pss) - x; i2 = (A.pss & x) - x
    print(A.p,A.q,A.r, A.basis[:0] or ('custom' if A.basis else 'default'), 'bad', bad[:4], 'pss identity', all(v==0 for v in i1.values()), all(v==0 for v in i2.values()))
