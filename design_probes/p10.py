exec(open('p9.py').read().split("def test(")[0])
import sympy
alg = Algebra(3)
x = symmv(alg, (1,2,4), 'x'); y = symmv(alg, (0,3,5,6), 'y')
@alg.register
def f(a, b):
    return (b >> a) + 2*a - (a|a)*b.grade(2)
r1 = f(x, y); r2 = (y >> x) + 2*x - (x|x)*y.grade(2)
d1, d2 = dict(r1.items()), dict(r2.items())
s = z3.Solver(); s.add(*CTX['assume'])
s.add(z3.Or([SV.lift(d1.get(k,0)) != SV.lift(d2.get(k,0)) for k in set(d1)|set(d2)]))
print('register vs direct', s.check(), r1.keys(), r2.keys())
@alg.register(symbolic=True)
def g(a, b):
    return (b >> a) + 2*a
r3 = g(x, y); d3 = dict(r3.items()); d4 = dict(((y>>x)+2*x).items())
s = z3.Solver(); s.add(z3.Or([SV.lift(d3.get(k,0)) != SV.lift(d4.get(k,0)) for k in set(d3)|set(d4)]))
print('symbolic register vs direct', s.check())
# C12: symbolic then call
xs = alg.multivector(name='x', keys=(1,2,4)); ys = alg.multivector(name='y', keys=(0,3,5,6))
rs = ys >> xs
print(rs.free_symbols)
vals = {str(sym): SV(z3.Real(str(sym))) for sym in rs.free_symbols}
rc = rs(**vals)
print(type(rc.values()), rc.values()[0])
