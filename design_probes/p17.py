import z3, itertools, warnings, collections, time
warnings.simplefilter('ignore')
from kingdon import Algebra
def tuples(n):
    out=[]
    for k in range(n+1):
        for c in itertools.combinations(range(n),k): out.extend(itertools.permutations(c))
    return out
T = tuples(4)
alg = Algebra(2)
classes = collections.defaultdict(list)
t=time.time()
for opn in ('gp','add','reverse','sw'):
    op = getattr(alg, opn)
    if opn=='reverse':
        for ka in T:
            ko, f = op[ka]; classes[f.__name__].append((opn,(ka,),ko,f))
    else:
        for ka in T:
            for kb in T[:20]:
                ko, f = op[ka,kb]; classes[f.__name__].append((opn,(ka,kb),ko,f))
print('gen', round(time.time()-t,1), 'names', len(classes), 'colliding', sum(1 for v in classes.values() if len(v)>1))
bad=0; checked=0
for name, members in classes.items():
    if len(members)<2: continue
    base = members[0]
    for m in members[1:]:
        # positional inputs: same lengths
        lens0 = [len(k) for k in base[1]]; lens1=[len(k) for k in m[1]]
        if lens0!=lens1: bad+=1; continue
        args = [[z3.Real(f'v{i}_{j}') for j in range(l)] for i,l in enumerate(lens0)]
        o0 = base[3](*args); o1 = m[3](*args)
        d0 = dict(zip(base[2], o0)); d1 = dict(zip(m[2], o1))
        s=z3.Solver(); s.add(z3.Or([d0.get(k,0)!=d1.get(k,0) for k in set(d0)|set(d1)] or [z3.BoolVal(False)]))
        checked+=1
        if str(s.check())!='unsat':
            bad+=1
            if bad<4: print('NOT EQUIV', name, base[1], m[1])
print('checked', checked, 'bad', bad)
