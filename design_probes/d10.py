import numpy as np
from kingdon import Algebra
from kingdon.multivector import MultiVector
alg = Algebra(3)
x = alg.multivector(values=[1,2,3,4,5,6,7,8])  # canonical
xb = x.asfullmv(canonical=False)
print('canon keys', x.keys(), 'bin keys', xb.keys(), list(xb.values()))
g = alg.graph(0xff0000, xb, [x, (lambda: xb)], 'lbl')
print(g.subjects)
print(g.key2idx, g.signature)
print(g.draggable_points, g.draggable_points_idxs)
# array valued
alg2 = Algebra(2,0,1)
p = alg2.vector(np.arange(6.).reshape(3,2))
g2 = alg2.graph(p, camera=alg2.blades.e12)
print(g2.subjects, g2.options)
# drag
pt = alg2.vector([1.,2.,3.]).dual()
pt2 = alg2.bivector([1.,2.,3.])
print(pt.keys(), pt2.keys())
g3 = alg2.graph(0xff, pt, 'a', pt2, lambda: pt & pt2)
print('dp', g3.draggable_points, g3.draggable_points_idxs, g3.subjects)
new = [{'mv': [0,0,0,0,9.,8.,7.,0]}, {'mv': [0,0,0,0,1.,1.,1.,0]}]
g3.draggable_points = new
print(list(pt.values()), list(pt2.values()), g3.subjects)
