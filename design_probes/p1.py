import time, z3, itertools
from kingdon import Algebra
from kingdon.multivector import MultiVector

def symmv(alg, keys, name):
    return MultiVector.fromkeysvalues(alg, tuple(keys), [z3.Real(f'{name}{k}') for k in keys])

def spec_gp(alg, a, b):
    res = {}
    for (ka, va), (kb, vb) in itertools.product(a.items(), b.items()):
        s = alg.signs[ka, kb]
        if s:
            res[ka ^ kb] = res.get(ka ^ kb, 0) + int(s) * va * vb
    return res

for d in (2,3,4,5):
    alg = Algebra(d)
    keys = tuple(range(2**d))
    a, b = symmv(alg, keys, 'a'), symmv(alg, keys, 'b')
    t = time.time(); c = a * b; t1 = time.time() - t
    spec = spec_gp(alg, a, b)
    t = time.time()
    s = z3.Solver()
    disj = [dict(c.items())[k] != spec[k] for k in spec]
    s.add(z3.Or(disj))
    r = s.check()
    print(d, 'codegen+run', round(t1,3), 'check', r, round(time.time()-t,3))
