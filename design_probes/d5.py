import random, itertools, warnings, sys
from fractions import Fraction
from kingdon import Algebra
from kingdon.multivector import MultiVector
warnings.simplefilter('ignore')
random.seed(5)
def rmv(alg, maxn=None, perm=True):
    n = 2**alg.d
    k = random.randint(0, maxn or n)
    keys = random.sample(range(n), k)
    if not perm: keys.sort()
    return MultiVector.fromkeysvalues(alg, tuple(keys), [Fraction(random.randint(-5,5)) for _ in keys])
def coeffs(alg, mv):
    if not isinstance(mv, MultiVector): mv = MultiVector.fromkeysvalues(alg,(0,),[mv])
    out = [0]*2**alg.d
    for k, v in mv.items(): out[k] += v
    return out
def gradeproj(alg, mv, g):
    return MultiVector.fromkeysvalues(alg, tuple(k for k in mv.keys() if bin(k).count('1')==g), [v for k,v in mv.items() if bin(k).count('1')==g])
def defn(alg, a, b, gfun):
    tot = [0]*2**alg.d
    for r in range(alg.d+1):
        for s in range(alg.d+1):
            ar, bs = gradeproj(alg,a,r), gradeproj(alg,b,s)
            if not ar.keys() or not bs.keys(): continue
            g = gfun(r,s)
            if g is None or g<0 or g>alg.d: continue
            p = gradeproj(alg, ar*bs, g)
            for k,v in p.items(): tot[k]+=v
    return tot
bad = 0
sigs = [(0,),(1,),(0,1),(0,0,1),(2,),(1,1),(1,0,1),(0,0,2),(3,),(2,0,1),(1,1,1),(0,3),(3,0,1),(2,2),(1,3),(4,1)]
for sig in sigs:
    alg = Algebra(*sig)
    for trial in range(60 if alg.d<=3 else 15):
        a, b = rmv(alg), rmv(alg)
        def chk(label, got, want):
            global bad
            if got != want:
                bad += 1
                print('MISMATCH', sig, label, dict(a.items()), dict(b.items()), got, want); 
        try:
            chk('op', coeffs(alg, a^b), defn(alg,a,b,lambda r,s:r+s))
            chk('ip', coeffs(alg, a|b), defn(alg,a,b,lambda r,s:abs(r-s)))
            chk('lc', coeffs(alg, a.lc(b)), defn(alg,a,b,lambda r,s:s-r))
            chk('rc', coeffs(alg, a.rc(b)), defn(alg,a,b,lambda r,s:r-s))
            chk('sp', coeffs(alg, a.sp(b)), defn(alg,a,b,lambda r,s:0))
            ab, ba = coeffs(alg,a*b), coeffs(alg,b*a)
            chk('cp', coeffs(alg, a.cp(b)), [(x-y)/2 for x,y in zip(ab,ba)])
            chk('acp', coeffs(alg, a.acp(b)), [(x+y)/2 for x,y in zip(ab,ba)])
            chk('add', coeffs(alg, a+b), [x+y for x,y in zip(coeffs(alg,a),coeffs(alg,b))])
            chk('sub', coeffs(alg, a-b), [x-y for x,y in zip(coeffs(alg,a),coeffs(alg,b))])
            chk('sw', coeffs(alg, a>>b), coeffs(alg, a*b*~a))
            chk('proj', coeffs(alg, a@b), coeffs(alg, (a|b)*~b))
            chk('normsq', coeffs(alg, a.normsq()), coeffs(alg, a*~a))
            chk('rp', coeffs(alg, a&b), coeffs(alg, (a.hodge()^b.hodge()).unhodge()))
            chk('rev anti', coeffs(alg, ~(a*b)), coeffs(alg, (~b)*(~a)))
            chk('conj anti', coeffs(alg, (a*b).conjugate()), coeffs(alg, b.conjugate()*a.conjugate()))
            chk('inv auto', coeffs(alg, (a*b).involute()), coeffs(alg, a.involute()*b.involute()))
        except Exception as e:
            print('EXC', sig, type(e).__name__, e, dict(a.items()), dict(b.items())); bad+=1
        if bad > 12: sys.exit()
print('done bad=', bad)
