from kingdon.polynomial import Polynomial, RationalPolynomial, compare
def _todict(p):
    d = {}
    for mono in p.args:
        key = tuple(mono[1:]); d[key] = d.get(key, 0) + mono[0]
    return {k: v for k, v in d.items() if v != 0}
MA = [('a','a'), ('a','a1'), ('a1','a1'), ('a12','a12')]
MB = [('a','a'), ('a','a12'), ('a1','a1'), ('a2','a2')]
def add44(c0: int, c1: int, c2: int, c3: int, d0: int, d1: int, d2: int, d3: int) -> bool:
    """
    pre: c0 != 0 and c1 != 0 and c2 != 0 and c3 != 0 and d0 != 0 and d1 != 0 and d2 != 0 and d3 != 0
    post: _
    """
    p = Polynomial([[c, *m] for c, m in zip((c0,c1,c2,c3), MA)]); q = Polynomial([[c, *m] for c, m in zip((d0,d1,d2,d3), MB)])
    r = p + q
    want = dict(_todict(p))
    for k, v in _todict(q).items(): want[k] = want.get(k, 0) + v
    want = {k: v for k, v in want.items() if v != 0}
    return _todict(r) == want and all(compare(r.args[i], r.args[i+1]) < 0 for i in range(len(r.args)-1)) and all(m[0] != 0 for m in r.args)
M7 = [('a','a'), ('a','a1'), ('a','a2'), ('a1','a1'), ('a1','a2'), ('a12','a12'), ('a2','a2')]
def mul17(c: int, d0: int, d1: int, d2: int, d3: int, d4: int, d5: int, d6: int) -> bool:
    """
    pre: c != 0 and d0 != 0 and d1 != 0 and d2 != 0 and d3 != 0 and d4 != 0 and d5 != 0 and d6 != 0
    post: _
    """
    p = Polynomial([[c, 'a1']]); q = Polynomial([[dd, *m] for dd, m in zip((d0,d1,d2,d3,d4,d5,d6), M7)])
    r = p * q
    want = {}
    for dd, m in zip((d0,d1,d2,d3,d4,d5,d6), M7):
        k = tuple(sorted(('a1',) + m)); want[k] = want.get(k, 0) + c*dd
    want = {k: v for k, v in want.items() if v != 0}
    return _todict(r) == want and all(compare(r.args[i], r.args[i+1]) < 0 for i in range(len(r.args)-1))
