from typing import List, Tuple
from kingdon.polynomial import Polynomial, RationalPolynomial, compare

def _todict(p):
    d = {}
    for mono in p.args:
        key = tuple(mono[1:])
        d[key] = d.get(key, 0) + mono[0]
    return {k: v for k, v in d.items() if v != 0}

def add3(c1: int, c2: int, c3: int, d1: int, d2: int, d3: int) -> bool:
    """
    pre: c1 != 0 and c2 != 0 and c3 != 0 and d1 != 0 and d2 != 0 and d3 != 0
    post: _
    """
    p = Polynomial([[c1, 'a'], [c2, 'a', 'b'], [c3, 'b']])
    q = Polynomial([[d1, 'a'], [d2, 'b'], [d3, 'b', 'b']])
    r = p + q
    want = {}
    for k, v in list(_todict(p).items()) + list(_todict(q).items()):
        want[k] = want.get(k, 0) + v
    want = {k: v for k, v in want.items() if v != 0}
    # sortedness and no dups and no zero coefficients
    keys = [tuple(m[1:]) for m in r.args]
    ok_sorted = all(compare(r.args[i], r.args[i+1]) < 0 for i in range(len(r.args)-1))
    return _todict(r) == want and ok_sorted and all(m[0] != 0 for m in r.args) and (bool(r) == bool(want))

def mul2(c1: int, c2: int, d1: int, d2: int) -> bool:
    """
    pre: c1 != 0 and c2 != 0 and d1 != 0 and d2 != 0
    post: _
    """
    p = Polynomial([[c1, 'a'], [c2, 'b']])
    q = Polynomial([[d1, 'a'], [d2, 'b']])
    r = p * q
    want = {('a','a'): c1*d1, ('a','b'): c1*d2 + c2*d1 + (1 if c1 == 7 else 0), ('b','b'): c2*d2}
    want = {k: v for k, v in want.items() if v != 0}
    return _todict(r) == want and (bool(r) == bool(want))
