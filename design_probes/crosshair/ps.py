import operator
from kingdon.codegen import power_supply, AdditionChains

def chain_ok(n: int) -> bool:
    """
    pre: 1 <= n <= 40
    post: _
    """
    seq = list(power_supply(1, n, operation=operator.add))
    ch = AdditionChains(n)[n]
    ok_chain = ch[0] == 1 and ch[-1] == n and all(any(ch[i] == ch[j] + ch[k] for j in range(i) for k in range(i)) for i in range(1, len(ch)))
    return seq[-1] == n and ok_chain

def range_ok(n: int) -> bool:
    """
    pre: 1 <= n <= 16
    post: _
    """
    seq = list(power_supply(1, tuple(range(1, n + 1)), operation=operator.add))
    return seq == list(range(1, n + 1))
