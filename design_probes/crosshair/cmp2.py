from typing import List
from kingdon.polynomial import compare

def _sgn(x): return (x > 0) - (x < 0)

def antisym(a: List[int], b: List[int]) -> bool:
    """
    pre: 1 <= len(a) <= 4 and 1 <= len(b) <= 4
    post: _
    """
    return _sgn(compare(a, b)) == -_sgn(compare(b, a)) and ((compare(a, b) == 0) == (a[1:] == b[1:]))

def trans(a: List[int], b: List[int], c: List[int]) -> bool:
    """
    pre: 1 <= len(a) <= 3 and 1 <= len(b) <= 3 and 1 <= len(c) <= 3
    pre: compare(a, b) < 0 and compare(b, c) < 0
    post: _
    """
    return compare(a, c) < 0
