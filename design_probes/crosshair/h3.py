from kingdon.polynomial import Polynomial, RationalPolynomial, compare
import kingdon.polynomial as P
def _todict(p):
    d = {}
    for mono in p.args:
        key = tuple(mono[1:])
        d[key] = d.get(key, 0) + mono[0]
    return {k: v for k, v in d.items() if v != 0}
def ratadd(n1: int, n2: int, m1: int, m2: int) -> bool:
    """
    pre: n1 != 0 and n2 != 0 and m1 != 0 and m2 != 0
    post: _
    """
    # (n1 a + n2 b)/(a) + (m1 a + m2 b)/(a)  => same denominators
    x = RationalPolynomial([[n1,'a'],[n2,'b']], [[1,'a']])
    y = RationalPolynomial([[m1,'a'],[m2,'b']], [[1,'a']])
    r = x + y
    # cross-multiplied check: r.numer * a == (n1+m1) a + (n2+m2) b times r.denom
    lhs = _todict(r.numer * Polynomial([[1,'a']]))
    rhs = _todict(Polynomial([[n1+m1,'a'],[n2+m2,'b']]) * r.denom) if (n1+m1 or n2+m2) else {}
    return lhs == rhs and (bool(r) == bool(n1+m1 != 0 or n2+m2 != 0)) and ((r == 0) == (n1+m1 == 0 and n2+m2 == 0))
