from kingdon.algebra import _swap_blades

def _inv(w: str) -> int:
    n = 0
    for i in range(len(w)):
        for j in range(i+1, len(w)):
            if w[i] > w[j]: n += 1
    return n

def _ok(w: str) -> bool:
    return all(c in '1234' for c in w) and len(set(w)) == len(w)

def swap_parity(w1: str, w2: str) -> bool:
    """
    pre: len(w1) <= 3 and len(w2) <= 3 and _ok(w1) and _ok(w2)
    post: _
    """
    swaps, res, elim = _swap_blades(w1, w2)
    # reference: reorder concatenation w1+w2 stably into sorted order with equal chars adjacent -> inversion parity
    # e_{w1} e_{w2} = (-1)^{inv(w1+w2 with ties not counted)} * prod squares * e_sorted(symdiff)
    cat = w1 + w2
    n = 0
    for i in range(len(cat)):
        for j in range(i+1, len(cat)):
            if cat[i] > cat[j]: n += 1
    # kingdon returns res unsorted: e_res = (-1)^{inv(res)} e_sorted
    return (swaps + _inv(res)) % 2 == n % 2 and sorted(res) == sorted(set(w1) ^ set(w2)) and sorted(elim) == sorted(set(w1) & set(w2))
