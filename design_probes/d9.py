import random, itertools, warnings, sys, traceback
from fractions import Fraction
import sympy
from kingdon import Algebra
from kingdon.multivector import MultiVector
warnings.simplefilter('ignore')
random.seed(3)
def coeffs(alg, mv):
    if not isinstance(mv, MultiVector): mv = MultiVector.fromkeysvalues(alg,(0,),[mv])
    out = [0]*2**alg.d
    for k, v in mv.items(): out[k] += v
    return out
binops = ['gp','sw','cp','acp','ip','sp','lc','rc','op','rp','proj','add','sub','div']
unops = ['inv','neg','reverse','involute','conjugate','polarity','unpolarity','hodge','unhodge','normsq','outerexp','outersin','outercos','outertan']
bad=0
for sig in [(2,),(1,1),(2,0,1),(3,)]:
    alg = Algebra(*sig); n = 2**alg.d
    for trial in range(25):
        def rnd(name):
            k = random.randint(1, min(n,4)); keys = random.sample(range(n), k)
            vals = [sympy.Rational(random.randint(1,6)) for _ in keys]
            symmask = [random.random()<0.7 for _ in keys]
            syms = [sympy.Symbol(f'{name}{alg.bin2canon[kk][1:]}') if m else v for kk,m,v in zip(keys,symmask,vals)]
            return keys, vals, syms
        ka, va, sa = rnd('a'); kb, vb, sb = rnd('b')
        subs = {s: v for s, v in zip(sa+sb, va+vb) if isinstance(s, sympy.Symbol)}
        for opn in binops+unops:
            A = alg
            try:
                an = MultiVector.fromkeysvalues(A, tuple(ka), list(va)); bn = MultiVector.fromkeysvalues(A, tuple(kb), list(vb))
                asym = MultiVector.fromkeysvalues(A, tuple(ka), list(sa)); bsym = MultiVector.fromkeysvalues(A, tuple(kb), list(sb))
                if opn in unops:
                    rn = getattr(A,opn)(an); rs = getattr(A,opn)(asym)
                else:
                    rn = getattr(A,opn)(an,bn); rs = getattr(A,opn)(asym,bsym)
            except Exception as e:
                continue
            cn = coeffs(A, rn)
            # sympy subs
            cs = [sympy.sympify(v).subs(subs) for v in coeffs(A, rs)]
            ok1 = all(sympy.simplify(sympy.sympify(x)-y)==0 for x,y in zip(cn,cs))
            # call
            ok2 = True
            try:
                if rs.free_symbols:
                    rc = rs(**{s.name: subs[s] for s in rs.free_symbols})
                    cc = coeffs(A, rc)
                    ok2 = all(sympy.simplify(sympy.sympify(x)-sympy.sympify(y))==0 for x,y in zip(cn,cc))
                    fs = sorted(rs.free_symbols, key=lambda s:s.name)
                    rc2 = rs(*[subs[s] for s in fs])
                    ok2 = ok2 and all(sympy.simplify(sympy.sympify(x)-sympy.sympify(y))==0 for x,y in zip(cn,coeffs(A,rc2)))
            except Exception as e:
                ok2 = 'EXC '+type(e).__name__+str(e)[:60]
            if not (ok1 and ok2 is True):
                bad+=1; print('C12', sig, opn, ka, sa, kb, sb, ok1, ok2, cn, cs)
print('C12 bad', bad)
