import itertools, random, warnings
from fractions import Fraction
warnings.simplefilter('ignore')
from kingdon import Algebra
from kingdon.multivector import MultiVector
random.seed(4)
def parity(seq):
    seq=list(seq); n=0
    for i in range(len(seq)):
        for j in range(i+1,len(seq)):
            if seq[i]>seq[j]: n+=1
    return n%2
def phi(A, D, x):
    """map mv x of custom algebra A into default algebra D (same start index)."""
    out = {}
    for k, v in x.items():
        name = A.bin2canon[k][1:]
        srt = ''.join(sorted(name))
        kk = D.canon2bin['e'+srt]
        out[kk] = out.get(kk, 0) + (-v if parity(name) else v)
    return out
def coeffs(D, mv):
    out={}
    if not isinstance(mv, MultiVector): return {0: mv}
    for k,v in mv.items(): out[k]=out.get(k,0)+v
    return out
def eq(d1,d2):
    ks=set(d1)|set(d2)
    return all(d1.get(k,0)==d2.get(k,0) for k in ks)
def scale(d,s): return {k:s*v for k,v in d.items()}
def randbasis(p,q,r, start):
    d=p+q+r
    gens=[format(start+i,'x') for i in range(d)]
    order=gens[:]; random.shuffle(order)
    basis=['e']+['e'+g for g in order]
    for g in range(2,d+1):
        bl=[]
        for c in itertools.combinations(gens,g):
            c=list(c); random.shuffle(c); bl.append('e'+''.join(c))
        random.shuffle(bl); basis+=bl
    return basis
cases=[('2DPGA',Algebra.fromname('2DPGA')),('3DPGA',Algebra.fromname('3DPGA')),('STAP',Algebra.fromname('STAP'))]
for (p,q,r) in [(2,0,0),(1,1,0),(2,0,1),(3,0,0),(1,1,1),(3,0,1),(2,1,1)]:
    for t in range(3):
        st = 0 if r==1 else 1
        b = randbasis(p,q,r,st)
        try:
            cases.append((f'R{p}{q}{r}:{b}', Algebra(p,q,r,basis=b)))
        except Exception as e:
            print('construct fail', p,q,r,b,type(e).__name__, e)
unops=['neg','reverse','involute','conjugate','hodge','unhodge','polarity','unpolarity','normsq','inv','outerexp']
binops=['gp','op','ip','lc','rc','sp','cp','acp','rp','sw','proj','add','sub','div']
for label, A in cases:
    D = Algebra(A.p,A.q,A.r, start_index=A.start_index)
    n=2**A.d
    pssA = A.pss; sig = phi(A,D,pssA)
    sigma = list(sig.values())[0]
    fails=[]
    for trial in range(6 if A.d<5 else 2):
        def rnd():
            ks=random.sample(range(n), random.randint(1,min(n,5)))
            return MultiVector.fromkeysvalues(A, tuple(ks), [Fraction(random.randint(1,7)) for _ in ks])
        x,y=rnd(),rnd()
        def toD(d): 
            ks=tuple(d.keys()); return MultiVector.fromkeysvalues(D, ks, [d[k] for k in ks])
        X,Y=toD(phi(A,D,x)),toD(phi(A,D,y))
        for opn in unops:
            try: l=phi(A,D,getattr(A,opn)(x)); le=None
            except Exception as e: l=None; le=type(e).__name__
            try: rr=coeffs(D,getattr(D,opn)(X)); re_=None
            except Exception as e: rr=None; re_=type(e).__name__
            if l is None or rr is None:
                if (l is None)!=(rr is None): fails.append((opn,'exc',le,re_))
                continue
            s = sigma if opn in ('hodge','unhodge','polarity','unpolarity') else 1
            if not eq(l, scale(rr,s)): fails.append((opn, dict(x.items())))
        for opn in binops:
            try: l=phi(A,D,getattr(A,opn)(x,y))
            except Exception as e: l=None
            try: rr=coeffs(D,getattr(D,opn)(X,Y))
            except Exception as e: rr=None
            if l is None or rr is None:
                if (l is None)!=(rr is None): fails.append((opn,'exc'))
                continue
            s = sigma if opn=='rp' else 1
            if not eq(l, scale(rr,s)): fails.append((opn,))
    print(label[:60], 'sigma', sigma, 'fails', len(fails), fails[:3])
