import z3, numpy as np, warnings, itertools
from fractions import Fraction
warnings.simplefilter('ignore')
from kingdon import Algebra
from kingdon.multivector import MultiVector

class ValueBranch(Exception): pass
class Ctx:
    def __init__(s): s.assume=[]; s.n=0; s.path=[]; s.prefix=[]; s.pos=0; s.solver=z3.Solver()
CTX = Ctx()
def lift(o):
    if isinstance(o, SV): return o.t
    if isinstance(o, bool): return None
    if isinstance(o, (int, np.integer)): return z3.RealVal(int(o))
    if isinstance(o, Fraction): return z3.Q(o.numerator, o.denominator)
    if isinstance(o, (float, np.floating)):
        n, d = float(o).as_integer_ratio(); return z3.Q(n, d)
    return None
class SB:
    def __init__(s, t): s.t = t
    def __bool__(s):
        # fork: follow prefix, else default True-first
        c = CTX
        if c.pos < len(c.prefix):
            choice = c.prefix[c.pos]
        else:
            choice = True
            c.prefix.append(True)
        c.pos += 1
        lit = s.t if choice else z3.Not(s.t)
        c.path.append(lit)
        return choice
class SV:
    def __init__(s, t): s.t = t
    def _bin(s, o, f):
        t = lift(o)
        if t is None: return NotImplemented
        return s.__class__(f(s.t, t)) if not isinstance(s, SVf) else SVf(f(s.t, t))
    def __add__(s, o): return s._bin(o, lambda a,b: a+b)
    def __radd__(s, o): return s._bin(o, lambda a,b: b+a)
    def __sub__(s, o): return s._bin(o, lambda a,b: a-b)
    def __rsub__(s, o): return s._bin(o, lambda a,b: b-a)
    def __mul__(s, o): return s._bin(o, lambda a,b: a*b)
    def __rmul__(s, o): return s._bin(o, lambda a,b: b*a)
    @staticmethod
    def _div(a, b):
        CTX.assume.append(b != 0); CTX.n += 1
        q = z3.Real(f'__q{CTX.n}'); CTX.assume.append(q*b == a); return q
    def __truediv__(s, o): return s._bin(o, SV._div)
    def __rtruediv__(s, o): return s._bin(o, lambda a,b: SV._div(b,a))
    def __pow__(s, n):
        if isinstance(n, int) and n >= 0:
            r = z3.RealVal(1)
            for _ in range(n): r = r*s.t
            return s.__class__(r)
        if n == 0.5:
            CTX.n += 1; y = z3.Real(f'__r{CTX.n}')
            CTX.assume += [s.t >= 0, y >= 0, y*y == s.t]
            return s.__class__(y)
        raise ValueBranch('pow %r' % n)
    def __neg__(s): return s.__class__(-s.t)
    def __gt__(s, o): return SB(s.t > lift(o))
    def __lt__(s, o): return SB(s.t < lift(o))
    def __ge__(s, o): return SB(s.t >= lift(o))
    def __le__(s, o): return SB(s.t <= lift(o))
    def __eq__(s, o):
        t = lift(o)
        return SB(s.t == t) if t is not None else NotImplemented
    def __ne__(s, o): return SB(s.t != lift(o))
    def __bool__(s): return bool(SB(s.t != 0))
    def __hash__(s): return hash(s.t)
    def __repr__(s): return f'SV({s.t})'
class SVf(SV, float):
    def __new__(cls, t):
        o = float.__new__(cls, float('nan')); return o
    def __init__(s, t): s.t = t
    def __float__(s): raise ValueBranch('float()')
UF = {n: z3.Function(n, z3.RealSort(), z3.RealSort()) for n in ('cosh','sinh','cos','nsinc')}
import numpy
orig = {n: getattr(numpy, n) for n in ('cosh','sinh','cos','sinc')}
def patch(name, uf):
    def f(x, *a, **k):
        if isinstance(x, SV): return SV(UF[uf](x.t))
        return orig[name](x, *a, **k)
    setattr(numpy, name, f)
patch('cosh','cosh'); patch('sinh','sinh'); patch('cos','cos'); patch('sinc','nsinc')

def explore(fn, maxpaths=50):
    results = []
    stack = [[]]
    while stack and len(results) < maxpaths:
        prefix = stack.pop()
        CTX.prefix = list(prefix); CTX.pos = 0; CTX.path = []; CTX.assume = []
        try:
            r = fn()
            err = None
        except ValueBranch as e:
            r = None; err = e
        except Exception as e:
            r = None; err = e
        taken = CTX.prefix[:CTX.pos]
        # schedule alternatives for decisions made beyond the given prefix
        for i in range(len(prefix), len(taken)):
            alt = taken[:i] + [not taken[i]]
            stack.append(alt)
        # feasibility
        s = z3.Solver(); s.add(*CTX.path)
        feas = s.check()
        results.append((taken, list(CTX.path), list(CTX.assume), r, err, feas))
    return results

for sig, bl in [((2,), 'e12'), ((1,1), 'e12'), ((2,0,1), 'e01'), ((2,0,1),'e12')]:
    alg = Algebra(*sig)
    k = alg.canon2bin[bl]
    def run():
        b = SVf(z3.Real('b'))
        x = MultiVector.fromkeysvalues(alg, (k,), [b])
        return x.exp()
    for taken, path, assume, r, err, feas in explore(run):
        print(sig, bl, 'path', taken, [str(p) for p in path], 'feasible', feas, '->', (dict(r.items()) if r is not None else err))
