exec(open('p13.py').read().split("UF = {n:")[0])
import numpy as np
alg = Algebra(3)
def arrmv(name, keys, shape, container='ndarray'):
    vals = np.empty((len(keys),)+shape, dtype=object)
    for idx in np.ndindex(*vals.shape):
        vals[idx] = SV(z3.Real(f'{name}{"_".join(map(str,idx))}'))
    if container == 'list': vals = [vals[i] for i in range(len(keys))]
    return MultiVector.fromkeysvalues(alg, tuple(keys), vals)
X = arrmv('x', (1,2,4), (2,3)); Y = arrmv('y', (0,3,5), (2,3), 'list')
print(X.shape, Y.shape)
R = X * Y
print(type(R.values()), R.shape)
for idx in [0, (1,2), (slice(None), 1), (Ellipsis, 0), -1, (slice(0,1),)]:
    try:
        lhs = R[idx]; rhs = X[idx] * Y[idx]
        s = z3.Solver()
        diffs = []
        for (k1, v1), (k2, v2) in zip(lhs.items(), rhs.items()):
            a1 = np.asarray(v1, dtype=object).ravel(); a2 = np.asarray(v2, dtype=object).ravel()
            assert k1 == k2 and a1.shape == a2.shape, (k1,k2,a1.shape,a2.shape)
            diffs += [p.t != q.t for p, q in zip(a1, a2)]
        s.add(z3.Or(diffs)); print(idx, s.check(), len(diffs))
    except Exception as e:
        print(idx, 'EXC', type(e).__name__, e)
# setitem
X2 = arrmv('x', (1,2,4), (2,3)); V = arrmv('v', (1,2,4), (3,))
before = X2.values().copy()
X2[0] = V
print(X2.values()[0,0,0], X2.values()[0,1,0], before[0,1,0])
Yl = arrmv('y', (0,3,5), (2,3), 'list')
try:
    Yl[1] = arrmv('w', (0,3,5), (3,), 'list'); print(Yl.values()[0][1,0], Yl.values()[0][0,0])
except Exception as e: print('setitem list EXC', type(e).__name__, e)
print([m.values() for m in list(X2.itermv())[:2]])
