import sys, warnings
warnings.simplefilter('ignore')
import sympy, numpy as np
from kingdon import Algebra
from kingdon.multivector import MultiVector
import kingdon; print(kingdon.__file__)
def tryit(label, f):
    try: print(label, '->', f())
    except BaseException as e: print(label, 'RAISED', type(e).__name__, str(e)[:80])
alg = Algebra(2); x = alg.multivector(e=2, e1=1)
def mk(src, sym=False):
    ns = {}; exec(src, ns); f = ns['f']
    return (alg.register(f) if not sym else alg.register(symbolic=True)(f)), f
for src in ["def f(a): return a**-1", "def f(a): return a**-2", "def f(a): return a.e1 * a", "def f(a): return a + a.e", "def f(a): return a.e12", "def f(a): return a.e1"]:
    g, f = mk(src)
    tryit(src+' direct', lambda: f(x)); tryit(src+' REG', lambda: g(x))
A3 = Algebra(3)
tryit('C15 e1 + e312', lambda: A3.multivector(e1=1, e312=5))
tryit('C15 e1 + e21', lambda: A3.multivector(e1=1, e21=5))
a = A3.multivector(e1=1); b = A3.multivector(e2=1); m = A3.multivector(e3=1)
tryit('C16 [a,b]^m', lambda: [str(v) for v in ([a,b] ^ m)])
tryit('C16 (lambda:a)^m', lambda: (lambda: a) ^ m)
tryit('C16 2^m', lambda: 2 ^ m)
# sqrt sympy
for sig, keys in [((2,),(0,3)), ((3,),(0,3,5,6)), ((1,1),(0,3))]:
    d = Algebra(*sig); s = Algebra(*sig, codegen_symbolcls=sympy.Symbol)
    vals=[5.0]+[1.0]*(len(keys)-1)
    print('sqrt', sig, list(MultiVector.fromkeysvalues(d, keys, list(vals)).sqrt().values()), list(MultiVector.fromkeysvalues(s, keys, list(vals)).sqrt().values()))
xb = A3.multivector(values=[1,2,3,4,5,6,7,8]).asfullmv(canonical=False)
print(A3.graph(xb).subjects)
print(A3.graph(A3.multivector(values=[1,2,3,4,5,6,7,8])).subjects)
