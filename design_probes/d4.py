import numpy as np, itertools, warnings
from fractions import Fraction
from kingdon import Algebra
from kingdon.multivector import MultiVector
def tryit(label, f):
    try:
        print(label, '->', f())
    except BaseException as e:
        print(label, 'RAISED', type(e).__name__, e)
# C07: ZeroDivisionError only for non-invertible
alg = Algebra(2)
x = alg.multivector(e1=1)
tryit('C07 inv e1', lambda: x.inv())
tryit('C07 inv 0-vector', lambda: alg.multivector(e1=0).inv())
tryit('C07 inv Fraction', lambda: alg.multivector(e=Fraction(2), e1=Fraction(1)).inv())
tryit('C07 1/x', lambda: 1 / x)
tryit('C07 x/x', lambda: x / x)
pga = Algebra(2,0,1)
tryit('C07 inv e0 (null)', lambda: pga.blades.e0.inv())
tryit('C07 e1/e0', lambda: pga.blades.e1 / pga.blades.e0)
tryit('C07 inv (1+e0)', lambda: (pga.blades.e + pga.blades.e0).inv())
tryit('C07 e1/(1+e0)', lambda: pga.blades.e1/(pga.blades.e + pga.blades.e0))
tryit('C07 x**-2', lambda: alg.multivector(e=2,e1=1)**-2)
# sym inverse
tryit('C07 sym inv', lambda: alg.multivector(name='a').inv())
# d=6
a6 = Algebra(6)
tryit('C07 6D inv e1+e2', lambda: (a6.blades.e1 + 2*a6.blades.e2).inv())
tryit('C07 6D inv 1+e12', lambda: (a6.blades.e + 2*a6.blades.e12).inv())
a33 = Algebra(3,3)
v = a33.blades.e1 + a33.blades.e4
tryit('C07 R33 null vector inv', lambda: v.inv())
tryit('C07 R33 inv e4', lambda: a33.blades.e4.inv())
a0 = Algebra(0)
tryit('C07 0D inv', lambda: a0.multivector(e=4).inv())
tryit('C07 0D inv Frac', lambda: a0.multivector(e=Fraction(4)).inv())
# C05
for sig in [(2,),(3,),(1,1),(2,0,1),(3,0,1),(1,0,2),(0,1),(4,),(0,2)]:
    A = Algebra(*sig)
    x = A.multivector(values=list(range(1, 2**A.d+1)))
    tryit(f'C05 {sig} hodge/unhodge', lambda: list(x.hodge().unhodge().asfullmv().values()) == list(x.values()))
    tryit(f'C05 {sig} pol/unpol', lambda: list(x.polarity().unpolarity().asfullmv().values()))
    tryit(f'C05 {sig} pol == x*pss.inv', lambda: (list(x.polarity().asfullmv().values()), list((x*A.pss.inv()).asfullmv().values())))
    tryit(f'C05 {sig} dual auto', lambda: x.dual().undual().asfullmv().values())
