import traceback
from kingdon import Algebra
from kingdon.multivector import MultiVector
def tryit(label, f):
    try:
        print(label, '->', f())
    except BaseException as e:
        print(label, 'RAISED', type(e).__name__, e)

# C09: numspace name collision with wrapper
alg = Algebra(2, wrapper=lambda f: f)
x = MultiVector.fromkeysvalues(alg, (1,2), [10, 20])
xp = MultiVector.fromkeysvalues(alg, (2,1), [20, 10])
z = MultiVector.fromkeysvalues(alg, (1,), [1])
tryit('C09 wrapper x*z first', lambda: x*z)
tryit('C09 wrapper xp*z', lambda: xp*z)
tryit('C09 wrapper x*z again', lambda: x*z)
# C09 without wrapper but via register
alg = Algebra(2)
@alg.register
def f(a, b): return a*b
x = MultiVector.fromkeysvalues(alg, (1,2), [10, 20])
xp = MultiVector.fromkeysvalues(alg, (2,1), [20, 10])
z = MultiVector.fromkeysvalues(alg, (1,), [1])
tryit('C09 reg f(x,z)', lambda: f(x,z))
tryit('C09 direct xp*z', lambda: xp*z)
tryit('C09 reg f(x,z) again', lambda: f(x,z))
# C11 pow negative
alg = Algebra(2)
x = alg.multivector(e=2, e1=1)
tryit('C11 direct x**-1', lambda: x**-1)
tryit('C11 reg x**-1', lambda: alg.register(lambda a: a**-1)(x))
tryit('C11 reg x**-2', lambda: alg.register(lambda a: a**-2)(x))
tryit('C11 reg coefficient access', lambda: alg.register(lambda a: a.e1)(x))
tryit('C11 reg 1/x', lambda: alg.register(lambda a: 1/a)(x))
tryit('C11 reg 2-x', lambda: alg.register(lambda a: 2-a)(x))
tryit('C11 direct 2-x', lambda: 2-x)
tryit('C11 reg x**0.5', lambda: alg.register(lambda a: a**0.5)(alg.multivector(e=4.0)))
tryit('C11 reg x.grade(1)', lambda: alg.register(lambda a: a.grade(1))(x))
tryit('C11 direct x.grade(1)', lambda: x.grade(1))
tryit('C11 reg x/2', lambda: alg.register(lambda a: a/2)(x))
tryit('C11 reg x**0', lambda: alg.register(lambda a: a**0)(x))
tryit('C11 reg sym x**-1', lambda: alg.register(symbolic=True)(lambda a: a**-1)(x))
# C15 even permutation kwargs
alg = Algebra(3)
tryit('C15 e312 alone', lambda: alg.multivector(e312=5))
tryit('C15 e1 + e312', lambda: alg.multivector(e1=1, e312=5))
tryit('C15 e1 + e21', lambda: alg.multivector(e1=1, e21=5))
tryit('C15 e12 + e21', lambda: alg.multivector(e12=1, e21=5))
tryit('C15 getattr e312', lambda: alg.multivector(e123=7).e312)
tryit('C15 getattr e321', lambda: alg.multivector(e123=7).e321)
# C16
alg = Algebra(3)
a = alg.multivector(e1=1); b = alg.multivector(e2=1); m = alg.multivector(e3=1)
tryit('C16 [a,b]^m', lambda: [str(v) for v in ([a,b] ^ m)])
tryit('C16 a^m', lambda: a^m)
tryit('C16 (lambda:a)^m', lambda: (lambda: a) ^ m)
tryit('C16 [a,b]*m', lambda: [str(v) for v in ([a,b] * m)])
tryit('C16 [a,b]|m', lambda: [str(v) for v in ([a,b] | (m+a))])
tryit('C16 [a,b]-m', lambda: [str(v) for v in ([a,b] - m)])
tryit('C16 [a,b]+m', lambda: [str(v) for v in ([a,b] + m)])
tryit('C16 [a,b]&m', lambda: [str(v) for v in ([a,b] & m)])
tryit('C16 [a,b]>>m', lambda: [str(v) for v in ([a,b] >> m)])
tryit('C16 [a,b]@m', lambda: [str(v) for v in ([a,b] @ m)])
tryit('C16 [a,b]/m', lambda: [str(v) for v in ([a,b] / m)])
