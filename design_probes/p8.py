import time, z3, itertools, numpy as np
from kingdon import Algebra
# symbolic signature table
for d in (3,6,7):
    alg = Algebra(d)
    s = [z3.Real(f's{i}') for i in range(d)]
    arr = np.empty(d, dtype=object)
    for i in range(d): arr[i] = s[i]
    alg.signature = arr
    t=time.time()
    T = alg._prepare_signs()
    if d>6:
        n=0
        for I in range(2**d):
            for J in range(2**d):
                T[I,J]; n+=1
    print(d, type(T).__name__, len(T), round(time.time()-t,2), T[3,3], T[1,3], T[2**d-1, 2**d-1])
    # reference
    def ref(I,J):
        sw = 0
        for i in range(d):
            if (J>>i)&1:
                sw += bin(I >> (i+1)).count('1')
        r = z3.RealVal(-1 if sw%2 else 1)
        for i in range(d):
            if (I&J)>>i & 1: r = r * s[i]
        return r
    t=time.time()
    sol = z3.Solver()
    N = 2**d
    diffs = [T[I,J] != ref(I,J) for I in range(N) for J in range(N)]
    sol.add(z3.Or(diffs))
    print('table==ref', sol.check(), round(time.time()-t,2))
