import sys; sys.setrecursionlimit(1000000)
import threading; threading.stack_size(512*1024*1024)
import time, z3, itertools, sys
from kingdon import Algebra
from kingdon.multivector import MultiVector
def symmv(alg, keys, name):
    return MultiVector.fromkeysvalues(alg, tuple(keys), [z3.Real(f'{name}{k}') for k in keys])
def run(sig, keys=None, timeout=60000):
    alg = Algebra(signature=sig) if isinstance(sig, list) else Algebra(*sig)
    d = alg.d
    keys = tuple(range(2**d)) if keys is None else keys
    a = symmv(alg, keys, 'a')
    t=time.time(); ai = a.inv(); t1=time.time()-t
    t=time.time()
    p = dict((a*ai).items()); q = dict((ai*a).items())
    s = z3.Solver(); s.set('timeout', timeout)
    # collect division denominators: find all subterms of form 1/x
    dens = set()
    def walk(e, seen=set()):
        if e.get_id() in seen: return
        seen.add(e.get_id())
        if e.decl().kind() == z3.Z3_OP_DIV:
            dens.add(e.arg(1))
        for c in e.children(): walk(c)
    for v in ai.values(): walk(v)
    for dd in dens: s.add(dd != 0)
    s.add(z3.Or([p.get(k,0) != (1 if k==0 else 0) for k in set(p)|{0}] + [q.get(k,0) != (1 if k==0 else 0) for k in set(q)|{0}]))
    r = s.check()
    print(sig, len(keys), 'codegen', round(t1,2), 'ndens', len(dens), 'check', r, round(time.time()-t,2)); sys.stdout.flush()




print('5D')


run((4,1), keys=(0,3,5,9,17,6,10,18,12,20,24))
run((4,1), keys=tuple(k for k in range(32) if bin(k).count('1')%2==0), timeout=120000)
print('6D')
run((6,), keys=(1,2,4))
run((6,), keys=(0,3))
run((3,3), keys=(0,3,12,48), timeout=120000)
