import os, shutil, subprocess, sys, json
from concurrent.futures import ThreadPoolExecutor
MUTANTS = {
 'M01_sub_only_b': ('kingdon/codegen.py', "            vals[k] = -v\n    return vals", "            vals[k] = v\n    return vals", 'C04'),
 'M02_polarity_plus_branch': ('kingdon/codegen.py', "    if sign == 1:\n        return x * x.algebra.pss", "    if sign == 1:\n        return - x * x.algebra.pss", 'C05'),
 'M03_hitzer_d5_grade': ('kingdon/codegen.py', "x_combo.grade(1, 4)", "x_combo.grade(1, 5)", 'C07'),
 'M04_shirokov_n': ('kingdon/codegen.py', "n = 2 ** ((alg.d + 1) // 2)", "n = 2 ** (alg.d // 2)", 'C07'),
 'M05_rsub_swapped': ('kingdon/multivector.py', "    def __rsub__(self, other):\n        return self.algebra.sub(other, self)", "    def __rsub__(self, other):\n        return self.algebra.sub(self, other)", 'C16'),
 'M06_list_left_swapped': ('kingdon/operator_dict.py', "return type(mv1)(self._call_binary(mv, mv2) for mv in mv1)", "return type(mv1)(self._call_binary(mv2, mv) for mv in mv1)", 'C16'),
 'M07_cache_always_regen': ('kingdon/operator_dict.py', "    def __getitem__(self, keys_in: Tuple[Tuple[int]]):\n        if keys_in not in self.operator_dict:\n            # Make symbolic multivectors for each set of keys and generate the code.\n            mvs =", "    def __getitem__(self, keys_in: Tuple[Tuple[int]]):\n        if keys_in not in self.operator_dict or len(keys_in) == 2:\n            # Make symbolic multivectors for each set of keys and generate the code.\n            mvs =", 'C10'),
 'M08_swap_target': ('kingdon/algebra.py', "            swaps += idx - i\n", "            swaps += idx\n", 'C01/C15'),
 'M09_poly_keep_zero': ('kingdon/polynomial.py', "                if ea[0] != 0:\n                    res.append(ea)", "                res.append(ea)", 'C17'),
 'M10_tape_sub_is_add': ('kingdon/taperecorder.py', "sub = __sub__ = partialmethod(binary_operator, operator='sub')", "sub = __sub__ = partialmethod(binary_operator, operator='add')", 'C11'),
 'M11_call_kwargs_unsorted': ('kingdon/multivector.py', "args = [v for k, v in sorted(kwargs.items(), key=lambda x: x[0])]", "args = [v for k, v in kwargs.items()]", 'C12'),
 'M12_rp_filter': ('kingdon/codegen.py', "filter_func = lambda kx, ky, k_out: key_pss == kx + ky - k_out", "filter_func = lambda kx, ky, k_out: key_pss <= kx + ky - k_out + (kx & ky & 1)", 'C05'),
 'M13_unhodge_sign': ('kingdon/codegen.py', "-v if x.algebra.signs[key_dual, eI] < 0 else v", "-v if x.algebra.signs[eI, key_dual] < 0 else v", 'C05'),
 'M14_involute_grades': ('kingdon/codegen.py', "return {k: -v if bin(k).count('1') % 4 in invert_grades else v", "return {k: -v if bin(k).count('1') % 8 in invert_grades else v", 'C04'),
 'M15_frommatrix_row': ('kingdon/multivector.py', "values=matrix[..., 0])", "values=matrix[..., 0, :])" , 'C18'),
 'M16_asfullmv_binary': ('kingdon/multivector.py', "            keys = tuple(range(len(self.algebra)))\n", "            keys = tuple(sorted(self.algebra.indices_for_grades[tuple(range(self.algebra.d + 1))], reverse=False))\n", 'equivalent?'),
 'M17_graded_blades': ('kingdon/algebra.py', "values=[int(bin_blade == i) for i in indices]", "values=[int(bin_blade >= i) for i in indices]", 'C13'),
 'M18_lc_is_rc': ('kingdon/codegen.py', "    return codegen_ip(x, y, diff_func=lambda x: -x)", "    return codegen_ip(x, y, diff_func=lambda x: x)", 'C03'),
 'M19_acp_filter': ('kingdon/codegen.py', "filter_func = lambda kx, ky, k_out: (algebra.signs[kx, ky] + algebra.signs[ky, kx])", "filter_func = lambda kx, ky, k_out: (algebra.signs[kx, ky] + algebra.signs[ky, kx]) or kx == ky == 3", 'C03'),
 'M20_sig_start_index': ('kingdon/algebra.py', "sign *= self.signature[int(key, base=16) - self.start_index]", "sign *= self.signature[int(key, base=16) - min(self.start_index, 1)]", 'C01'),
}
def run(name):
    path, old, new, prop = MUTANTS[name]
    d = f'/tmp/mut/{name}'
    shutil.rmtree(d, ignore_errors=True); os.makedirs(d)
    shutil.copytree('/repo/kingdon', d + '/kingdon'); shutil.copytree('/repo/tests', d + '/tests')
    s = open(f'{d}/{path}').read()
    if s.count(old) != 1: return name, prop, f'PATCH-FAIL count={s.count(old)}'
    open(f'{d}/{path}', 'w').write(s.replace(old, new))
    env = dict(os.environ, PYTHONPATH=d)
    r = subprocess.run(['/venv/bin/python', '-m', 'pytest', '-q', '-p', 'no:cacheprovider', '-x', '--timeout=600', 'tests'], cwd=d, env=env, capture_output=True, text=True)
    tail = r.stdout.strip().splitlines()[-1] if r.stdout.strip() else r.stderr[-200:]
    failed = [l for l in r.stdout.splitlines() if l.startswith('FAILED')]
    shutil.rmtree(d, ignore_errors=True)
    return name, prop, ('SURVIVES ' if r.returncode == 0 else 'killed   ') + tail + ' ' + ' '.join(failed[:2])
with ThreadPoolExecutor(8) as ex:
    for name, prop, res in ex.map(run, MUTANTS):
        print(f'{name:28s} {prop:8s} {res}', flush=True)
