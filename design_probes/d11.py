import numpy as np, warnings, linecache
warnings.simplefilter('ignore')
from kingdon import Algebra
from kingdon.multivector import MultiVector
def tryit(label, f):
    try:
        r = f(); print(label, '->', type(r).__name__, r)
    except BaseException as e:
        print(label, 'RAISED', type(e).__name__, str(e)[:100])
alg = Algebra(3)
m = alg.multivector(e1=1.0, e12=2.0)
for s in (np.float64(2.0), np.int64(2), np.array(2.0)):
    for opn, f in [('*', lambda s: s*m), ('+', lambda s: s+m), ('-', lambda s: s-m), ('/', lambda s: s/m), ('^', lambda s: s^m), ('|', lambda s: s|m), ('&', lambda s: s&m), ('>>', lambda s: s>>m), ('@', lambda s: s@m)]:
        tryit(f'{type(s).__name__} {opn} mv', lambda: f(s))
# C19 outerexp
a6 = Algebra(6)
B = a6.bivector(name='B')
Bn = a6.bivector(list(range(1,16)))
r = Bn.outerexp()
print(''.join(linecache.getlines('<codegen_outerexp_%d>' % Bn.type_number))[:600])
# exp branches
for sig, bl in [((2,), 'e12'), ((1,1),'e12'), ((2,0,1),'e01'), ((3,),'e1')]:
    A = Algebra(*sig)
    x = 0.5*A.blades[bl]
    tryit(f'exp {sig} {bl}', lambda: x.exp())
x = Algebra(1,1).multivector(e12=2)  # int
tryit('exp int', lambda: x.exp())
tryit('exp complex', lambda: Algebra(2).multivector(e12=1j).exp())
tryit('exp sym', lambda: Algebra(1,1).multivector(e12='t').exp())
tryit('exp np array', lambda: Algebra(2).multivector(e12=np.array([0.5, 1.0])).exp())
tryit('exp np array R11', lambda: Algebra(1,1).multivector(e12=np.array([0.5, 1.0])).exp())
