import z3, time
def parity_bits(x, W):
    # xor of all bits
    r = z3.Extract(0,0,x)
    for i in range(1,W): r = r ^ z3.Extract(i,i,x)
    return r  # 1-bit bv
def refsign(I, J, neg, zero, W):
    """returns (is_zero: Bool, is_neg: 1-bit BV) for e_I e_J; neg/zero are W-bit masks of generators squaring to -1 / 0."""
    # swaps = sum_{j in J} popcount(I >> (j+1))
    sw = z3.BitVecVal(0,1)
    for j in range(W):
        bj = z3.Extract(j,j,J)
        hi = z3.LShR(I, j+1)
        sw = sw ^ (bj & parity_bits(hi, W))
    common = I & J
    sw = sw ^ parity_bits(common & neg, W)
    iszero = (common & zero) != 0
    return iszero, sw
for W in (4, 6, 8):
    I,J,K,neg,zero = z3.BitVecs('I J K neg zero', W)
    s = z3.Solver(); s.add(neg & zero == 0)
    z1,n1 = refsign(I,J,neg,zero,W); z2,n2 = refsign(I^J,K,neg,zero,W)
    z3_,n3 = refsign(J,K,neg,zero,W); z4,n4 = refsign(I,J^K,neg,zero,W)
    lz = z3.Or(z1,z2); rz = z3.Or(z3_,z4)
    s.add(z3.Or(lz != rz, z3.And(z3.Not(lz), (n1^n2) != (n3^n4))))
    t=time.time(); print(W, 'assoc', s.check(), round(time.time()-t,2))
    # anticommutation & squares for generators
    i, j = z3.BitVecs('i j', W)
    s = z3.Solver(); s.add(neg & zero == 0)
    onehot = lambda x: z3.And(x != 0, x & (x-1) == 0)
    s.add(onehot(i), onehot(j), i != j)
    za, na = refsign(i,j,neg,zero,W); zb, nb = refsign(j,i,neg,zero,W)
    zs, ns = refsign(i,i,neg,zero,W)
    s.add(z3.Or(za, zb, na == nb, zs != ((i & zero) != 0), z3.And(z3.Not(zs), (ns == 1) != ((i & neg) != 0))))
    t=time.time(); print(W, 'gens', s.check(), round(time.time()-t,2))
