import z3, cvc5, time, itertools
from kingdon import Algebra
from kingdon.multivector import MultiVector
def symmv(alg, keys, name):
    return MultiVector.fromkeysvalues(alg, tuple(keys), [z3.Real(f'{name}{k}') for k in keys])
alg = Algebra(3)
a, b = symmv(alg, range(8), 'a'), symmv(alg, range(8), 'b')
sw = dict((a >> b).items()); ref = dict((a*b*~a).items())
s = z3.Solver()
s.add(z3.Or([sw[k] != ref[k] for k in ref]))
smt = "(set-logic QF_NRA)\n" + s.to_smt2()
print(len(smt))
def cvc5_check(smt, tl=60000):
    slv = cvc5.Solver()
    slv.setOption('tlimit-per', str(tl))
    p = cvc5.InputParser(slv)
    p.setStringInput(cvc5.InputLanguage.SMT_LIB_2_6, smt, 'q')
    sm = p.getSymbolManager()
    res = None
    while True:
        cmd = p.nextCommand()
        if cmd.isNull(): break
        out = cmd.invoke(slv, sm)
        if out.strip(): res = out.strip()
    return res
t=time.time(); print('cvc5:', cvc5_check(smt), round(time.time()-t,2))
# mutated (sat expected)
s2 = z3.Solver(); s2.add(z3.Or([sw[k] != ref[k] + (a.values()[1] if k==3 else 0) for k in ref]))
t=time.time(); print('cvc5 mutated:', cvc5_check("(set-logic QF_NRA)\n"+s2.to_smt2()), round(time.time()-t,2))
