import warnings, builtins, itertools
warnings.simplefilter('ignore')
from fractions import Fraction
import numpy as np, sympy
import kingdon.codegen as cg, kingdon.operator_dict as od
from kingdon import Algebra
from kingdon.multivector import MultiVector
events = []
_compile, _exec = builtins.compile, builtins.exec
def ccompile(*a, **k): events.append('compile'); return _compile(*a, **k)
builtins.compile = ccompile
for n in ('do_codegen','do_compile'):
    orig = getattr(od, n)
    def mk(orig, n):
        def w(*a, **k): events.append(n); return orig(*a, **k)
        return w
    setattr(od, n, mk(orig, n))
binops = ['gp','sw','cp','acp','ip','sp','lc','rc','op','rp','proj','add','sub','div']
unops = ['inv','neg','reverse','involute','conjugate','sqrt','polarity','unpolarity','hodge','unhodge','normsq','outerexp','outersin','outercos','outertan']
alg = Algebra(3)
kinds = {'int': lambda i: i+2, 'float': lambda i: float(i)+2.5, 'Fraction': lambda i: Fraction(i+2,3), 'ndarray': lambda i: np.arange(3.)+i+2, 'sympy': lambda i: sympy.Symbol(f's{i}')+1}
ka, kb = (0,3,5,6), (1,2,4)
bad=0
for opn in binops+unops:
    first=True
    for kind, mkv in kinds.items():
        for rep in range(2):
            a = MultiVector.fromkeysvalues(alg, ka, [mkv(i) for i in range(len(ka))])
            b = MultiVector.fromkeysvalues(alg, kb, [mkv(i+5) for i in range(len(kb))])
            events.clear(); n0 = len(getattr(alg,opn))
            try:
                r = getattr(alg,opn)(a,b) if opn in binops else getattr(alg,opn)(a)
            except Exception as e:
                print(opn, kind, 'EXC', type(e).__name__, str(e)[:60]); continue
            if first: print("first", opn, events)
            if not first and (events or len(getattr(alg,opn)) != n0):
                bad+=1; print('RECODEGEN', opn, kind, rep, events[:5], n0, len(getattr(alg,opn)))
            first=False
print('bad', bad)
