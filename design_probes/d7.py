import traceback, warnings
from kingdon import Algebra
from kingdon.multivector import MultiVector
warnings.simplefilter('ignore')
for sig, opn, ga, gb in [((2,0,1),'sw',(1,),(3,)),((2,0,1),'div',(2,),(2,)),((2,0,1),'sqrt',(1,3),None),((2,0,1),'proj',(1,),(3,)),((1,1),'sw',(1,),(2,)), ((1,1),'inv',(1,2),None)]:
    V = Algebra(*sig, graded=True)
    ka = V.indices_for_grades[ga]
    a = MultiVector.fromkeysvalues(V, ka, [2.0]*len(ka))
    try:
        if gb is None: r = getattr(V,opn)(a)
        else:
            kb = V.indices_for_grades[gb]; b = MultiVector.fromkeysvalues(V, kb, [3.0]*len(kb))
            r = getattr(V,opn)(a,b)
        print(opn, 'ok', r)
    except Exception as e:
        tb = traceback.extract_tb(e.__traceback__)
        print(sig, opn, ga, gb, type(e).__name__, [(f.filename.split('/')[-1], f.lineno, f.name) for f in tb][-7:])
