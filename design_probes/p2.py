import time, z3, itertools, random
from kingdon import Algebra
from kingdon.multivector import MultiVector
random.seed(1)
def symmv(alg, keys, name):
    return MultiVector.fromkeysvalues(alg, tuple(keys), [z3.Real(f'{name}{k}') for k in keys])

def spec_gp_terms(alg, aitems, bitems):
    res = {}
    for (ka, va), (kb, vb) in itertools.product(aitems, bitems):
        s = alg.signs[ka, kb]
        if s:
            res.setdefault(ka ^ kb, []).append(int(s) * (vb * va))
    return res
def tot(terms):
    out = {}
    for k, ts in terms.items():
        random.shuffle(ts)
        out[k] = z3.Sum(ts)
    return out
def check(pairs, label):
    t = time.time()
    s = z3.Solver()
    s.add(z3.Or([x != y for x, y in pairs]))
    r = s.check()
    print(label, r, round(time.time()-t,3))
    return r

for d in (3,4,5):
    alg = Algebra(d)
    keys = tuple(range(2**d))
    a, b = symmv(alg, keys, 'a'), symmv(alg, keys, 'b')
    c = dict((a * b).items())
    spec = tot(spec_gp_terms(alg, list(a.items()), list(b.items())))
    check([(c[k], spec[k]) for k in spec], f'gp d={d} shuffled')
    # mutated
    k0 = 3
    spec2 = dict(spec); spec2[k0] = spec[k0] - 2*a.values()[1]*b.values()[2]
    check([(c[k], spec2[k]) for k in spec2], f'gp d={d} mutated')
# sandwich
for d in (2,3,4):
    alg = Algebra(d)
    keys = tuple(range(2**d))
    a, b = symmv(alg, keys, 'a'), symmv(alg, keys, 'b')
    t=time.time(); sw = dict((a >> b).items()); print('sw codegen', d, round(time.time()-t,2), len(sw))
    t=time.time(); ref = dict((a*b*~a).items()); print('ref', round(time.time()-t,2))
    allk = set(sw)|set(ref)
    check([(sw.get(k,0), ref.get(k,0)) for k in allk], f'sw d={d}')
