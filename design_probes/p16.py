import z3, sympy, time, warnings, random
warnings.simplefilter('ignore')
from kingdon import Algebra
from kingdon.multivector import MultiVector
assume = []
def sy2z3(e, env):
    if e.is_Symbol: return env.setdefault(e.name, z3.Real(e.name))
    if e.is_Integer: return z3.RealVal(int(e))
    if e.is_Rational: return z3.Q(int(e.p), int(e.q))
    if e.is_Float:
        n, d = float(e).as_integer_ratio(); return z3.Q(n, d)
    if e.is_Add:
        return z3.Sum([sy2z3(a, env) for a in e.args])
    if e.is_Mul:
        r = z3.RealVal(1)
        for a in e.args: r = r * sy2z3(a, env)
        return r
    if e.is_Pow:
        b, ex = e.args
        bt = sy2z3(b, env)
        if ex.is_Integer:
            n = int(ex)
            r = z3.RealVal(1)
            for _ in range(abs(n)): r = r*bt
            if n < 0:
                assume.append(r != 0); return 1/r
            return r
    raise NotImplementedError(repr(e))
random.seed(2)
alg = Algebra(3)
n = 8
tot=0; t0=time.time()
for trial in range(30):
    ka = tuple(random.sample(range(n), random.randint(1,4))); kb = tuple(random.sample(range(n), random.randint(1,4)))
    xs = alg.multivector(name='x', keys=ka); ys = alg.multivector(name='y', keys=kb)
    xz = MultiVector.fromkeysvalues(alg, ka, [z3.Real(str(v)) for v in xs.values()])
    yz = MultiVector.fromkeysvalues(alg, kb, [z3.Real(str(v)) for v in ys.values()])
    for opn in ('gp','sw','proj','ip','div','inv'):
        try:
            t=time.time()
            if opn=='inv': rs = xs.inv(); rz = xz.inv()
            else: rs = getattr(alg,opn)(xs,ys); rz = getattr(alg,opn)(xz,yz)
            ts=time.time()-t
        except ZeroDivisionError: continue
        env={}; assume.clear()
        ds = {k: sy2z3(sympy.sympify(v), env) for k,v in rs.items()}
        dz = dict(rz.items())
        s = z3.Solver(); s.set('rlimit', 30000000)
        # denominators of z3 side
        st=[v for v in dz.values() if z3.is_expr(v)]; seen=set()
        while st:
            e=st.pop()
            if e.get_id() in seen: continue
            seen.add(e.get_id())
            if e.decl().kind()==z3.Z3_OP_DIV: assume.append(e.arg(1)!=0)
            st.extend(e.children())
        s.add(*assume)
        s.add(z3.Or([ds.get(k,0) != dz.get(k,0) for k in set(ds)|set(dz)]))
        r = s.check(); tot+=1
        if str(r)!='unsat': print(opn, ka, kb, r, round(ts,2))
print('cases', tot, round(time.time()-t0,1),'s')
