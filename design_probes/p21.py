import collections, warnings
warnings.simplefilter('ignore')
import kingdon.polynomial as P
from kingdon import Algebra
shapes = collections.Counter()
def shape(p):
    if isinstance(p, P.RationalPolynomial): return ('R', shape(p.numer), shape(p.denom))
    if isinstance(p, P.Polynomial): return ('P', tuple(tuple(m[1:]) for m in p.args))
    return ('num', type(p).__name__)
for cls in (P.Polynomial, P.RationalPolynomial):
    for opn in ('__add__','__mul__'):
        orig = getattr(cls, opn)
        def mk(orig, cls, opn):
            def w(self, other):
                shapes[(cls.__name__, opn, shape(self), shape(other))] += 1
                return orig(self, other)
            return w
        setattr(cls, opn, mk(orig, cls, opn))
P.Polynomial.__radd__ = P.Polynomial.__add__; P.Polynomial.__rmul__ = P.Polynomial.__mul__
for sig in [(2,), (1,1), (2,0,1)]:
    alg = Algebra(*sig)
    x = alg.multivector(name='x'); y = alg.vector(name='y') 
    import numpy as np
    xs = alg.multivector(list(range(2, len(alg)+2))); ys = alg.vector([3]*alg.d)
    xs >> ys; xs @ ys; xs.normsq(); xs.inv(); ys / xs if True else None
sizes = collections.Counter()
for (cls, opn, a, b), n in shapes.items():
    def nm(s): 
        if s[0]=='P': return len(s[1])
        if s[0]=='R': return len(s[1][1]) + len(s[2][1])
        return 0
    sizes[(cls, opn, min(nm(a),9), min(nm(b),9))] += 1
print('distinct shapes', len(shapes), 'calls', sum(shapes.values()))
small = [k for k in shapes if k[0]=='Polynomial' and all(s[0]=='P' and len(s[1])<=3 for s in (k[2],k[3]))]
print('Polynomial ops with both operands <=3 monomials:', len(small))
import itertools
for k,v in sorted(sizes.items())[:40]: print(k, v)
