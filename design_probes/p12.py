import z3, operator
import kingdon.codegen as cg
W = 10; E = W + 3
class SI:
    def __init__(s, t): s.t = t
    @staticmethod
    def lift(o): return o.t if isinstance(o, SI) else z3.BitVecVal(int(o), E)
    def __add__(s,o): return SI(s.t + SI.lift(o))
    __radd__ = __add__
    def __sub__(s,o): return SI(s.t - SI.lift(o))
    def __rsub__(s,o): return SI(SI.lift(o) - s.t)
    def __xor__(s,o): return SI(s.t ^ SI.lift(o))
    __rxor__ = __xor__
    def __neg__(s): return SI(-s.t)
    def __abs__(s): return SI(z3.If(s.t < 0, -s.t, s.t))
    def __eq__(s,o): return s.t == SI.lift(o)
    def __hash__(s): return 0
captured = {}
def fake_product(x, y, filter_func=None, sign_func=None, keyout_func=operator.xor):
    captured.update(filter_func=filter_func, sign_func=sign_func, keyout_func=keyout_func)
    return {}
orig = cg.codegen_product
cg.codegen_product = fake_product
class FakeAlg:
    def __len__(self): return 2**W
    signs = None
class FakeMV:
    algebra = FakeAlg()
def popcount(x): return z3.Sum([z3.ZeroExt(E-1, z3.Extract(i,i,x)) for i in range(W)])
kx, ky = z3.BitVec('kx', W), z3.BitVec('ky', W)
KX, KY = SI(z3.ZeroExt(E-W, kx)), SI(z3.ZeroExt(E-W, ky))
for name, gfun in [('codegen_op', lambda r,s: r+s), ('codegen_ip', lambda r,s: z3.If(r>=s, r-s, s-r)), ('codegen_lc', lambda r,s: s-r), ('codegen_rc', lambda r,s: r-s), ('codegen_sp', lambda r,s: z3.BitVecVal(0,E))]:
    captured.clear()
    getattr(cg, name)(FakeMV(), FakeMV())
    kout = captured['keyout_func'](KX, KY)
    cond = captured['filter_func'](KX, KY, kout)
    r, s_, g = popcount(kx), popcount(ky), popcount(kx ^ ky)
    sol = z3.Solver()
    sol.add(cond != (g == gfun(r, s_)))
    print(name, sol.check())
cg.codegen_product = orig
