import random, itertools, warnings, sys, traceback
from fractions import Fraction
import sympy
from kingdon import Algebra
from kingdon.multivector import MultiVector
warnings.simplefilter('ignore')
random.seed(7)
def coeffs(alg, mv):
    if not isinstance(mv, MultiVector): mv = MultiVector.fromkeysvalues(alg,(0,),[mv])
    out = [0]*2**alg.d
    for k, v in mv.items(): out[k] += v
    return out
binops = ['gp','sw','cp','acp','ip','sp','lc','rc','op','rp','proj','add','sub','div']
unops = ['inv','neg','reverse','involute','conjugate','sqrt','polarity','unpolarity','hodge','unhodge','normsq','outerexp','outersin','outercos','outertan']
def gmv(alg, grades):
    keys = alg.indices_for_grades[tuple(grades)]
    return keys, [Fraction(random.randint(1,5)) for _ in keys]
bad=0
for sig in [(1,),(2,),(1,1),(2,0,1),(3,),(1,1,1),(3,0,1)]:
    base = Algebra(*sig)
    variants = {'cse0': Algebra(*sig, cse=False), 'graded': Algebra(*sig, graded=True), 'sympy': Algebra(*sig, codegen_symbolcls=sympy.Symbol),
                'wrapper': Algebra(*sig, wrapper=lambda f: f), 'graded_cse0': Algebra(*sig, graded=True, cse=False)}
    d = base.d
    gradesets = [g for n in range(1, 3) for g in itertools.combinations(range(d+1), n)]
    for ga in gradesets:
        ka, va = gmv(base, ga)
        for opn in unops:
            try:
                ref = coeffs(base, getattr(base, opn)(MultiVector.fromkeysvalues(base, ka, list(va))))
                referr = None
            except Exception as e:
                ref = None; referr = type(e).__name__
            for vn, V in variants.items():
                try:
                    got = coeffs(V, getattr(V, opn)(MultiVector.fromkeysvalues(V, ka, list(va))))
                    goterr=None
                except Exception as e:
                    got=None; goterr=type(e).__name__
                ok = (ref is not None and got is not None and all(abs(complex(x)-complex(y))<1e-9 for x,y in zip(ref,got))) or (ref is None and got is None)
                if not ok:
                    bad+=1; print('DIFF', sig, opn, ga, vn, 'ref', referr or ref, 'got', goterr or got)
        for gb in gradesets[:6]:
            kb, vb = gmv(base, gb)
            for opn in binops:
                try:
                    ref = coeffs(base, getattr(base, opn)(MultiVector.fromkeysvalues(base, ka, list(va)), MultiVector.fromkeysvalues(base, kb, list(vb)))); referr=None
                except Exception as e:
                    ref=None; referr=type(e).__name__
                for vn, V in variants.items():
                    try:
                        got = coeffs(V, getattr(V, opn)(MultiVector.fromkeysvalues(V, ka, list(va)), MultiVector.fromkeysvalues(V, kb, list(vb)))); goterr=None
                    except Exception as e:
                        got=None; goterr=type(e).__name__ + ':' + str(e)[:80]
                    ok = (ref is not None and got is not None and all(abs(complex(x)-complex(y))<1e-9 for x,y in zip(ref,got))) or (ref is None and got is None)
                    if not ok:
                        bad+=1; print('DIFF', sig, opn, ga, gb, vn, 'ref', referr or ref, 'got', goterr or got)
    print(sig, 'bad so far', bad); sys.stdout.flush()
