import time, warnings, faulthandler, sys
warnings.simplefilter('ignore')
faulthandler.dump_traceback_later(40, exit=True)
exec(open('p13.py').read().split("UF = {n:")[0])
alg = Algebra(3)
keys = alg.indices_for_grades[(2,)]
x = MultiVector.fromkeysvalues(alg, keys, [SV(z3.Real(f'x{k}')) for k in keys])
t=time.time(); r = x.outerexp(); print('outerexp', round(time.time()-t,2), r.keys(), flush=True)
w = x ^ x
print('w', w.keys(), bool(w), flush=True)
