import time, z3, itertools, warnings
warnings.simplefilter('ignore')
from kingdon import Algebra
from kingdon.multivector import MultiVector
def tuples(n):
    out=[]
    for k in range(n+1):
        for c in itertools.combinations(range(n),k):
            out.extend(itertools.permutations(c))
    return out
T = tuples(4)
print(len(T))
for opn in ['gp','op','sw','proj','div','rp','add']:
    alg = Algebra(2)
    t=time.time(); cnt=0; exc=0
    for ka in T:
        for kb in T[:65]:
            a = MultiVector.fromkeysvalues(alg, ka, [z3.Real(f'a{k}') for k in ka])
            b = MultiVector.fromkeysvalues(alg, kb, [z3.Real(f'b{k}') for k in kb])
            try:
                r = getattr(alg, opn)(a,b); cnt+=1
            except Exception as e:
                exc+=1
    print(opn, cnt, exc, round(time.time()-t,2))
