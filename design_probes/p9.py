import time, z3, itertools, numpy as np, warnings
from fractions import Fraction
warnings.simplefilter('ignore')
from kingdon import Algebra
from kingdon.multivector import MultiVector
class ValueBranch(Exception): pass
CTX = {'assume': [], 'n': 0}
class SV:
    __slots__ = ('t',)
    def __init__(self, t): self.t = t
    @staticmethod
    def lift(o):
        if isinstance(o, SV): return o.t
        if isinstance(o, (int, np.integer)) and not isinstance(o,bool): return z3.RealVal(int(o))
        if isinstance(o, Fraction): return z3.Q(o.numerator, o.denominator)
        if isinstance(o, (float, np.floating)):
            n, d = float(o).as_integer_ratio(); return z3.Q(n, d)
        return None
    def _bin(self, o, f):
        t = SV.lift(o)
        if t is None: return NotImplemented
        return SV(f(self.t, t))
    def __add__(s, o): return s._bin(o, lambda a,b: a+b)
    def __radd__(s, o): return s._bin(o, lambda a,b: b+a)
    def __sub__(s, o): return s._bin(o, lambda a,b: a-b)
    def __rsub__(s, o): return s._bin(o, lambda a,b: b-a)
    def __mul__(s, o): return s._bin(o, lambda a,b: a*b)
    def __rmul__(s, o): return s._bin(o, lambda a,b: b*a)
    def _div(a, b):
        CTX['assume'].append(b != 0)
        CTX['n'] += 1
        q = z3.Real(f'__q{CTX["n"]}')
        CTX['assume'].append(q * b == a)
        return q
    def __truediv__(s, o): return s._bin(o, SV._div)
    def __rtruediv__(s, o): return s._bin(o, lambda a,b: SV._div(b,a))
    def __pow__(s, n):
        if isinstance(n, int) and n >= 0:
            r = z3.RealVal(1)
            for _ in range(n): r = r * s.t
            return SV(r)
        if isinstance(n, int): return 1 / (s ** (-n))
        if n == 0.5:
            CTX['n'] += 1
            y = z3.Real(f'__r{CTX["n"]}')
            CTX['assume'] += [s.t >= 0, y >= 0, y*y == s.t]
            return SV(y)
        if isinstance(n, float) and (2*n).is_integer():
            k = int(2*n)
            root = s ** 0.5
            return root ** k
        raise ValueBranch('pow')
    def __neg__(s): return SV(-s.t)
    def __bool__(s): raise ValueBranch('bool')
    def __hash__(s): return hash(s.t)
    def __repr__(s): return f'SV({s.t})'
def symmv(alg, keys, name):
    return MultiVector.fromkeysvalues(alg, tuple(keys), [SV(z3.Real(f'{name}{k}')) for k in keys])
def test(sig, keys):
    CTX['assume'].clear()
    alg = Algebra(*sig)
    x = symmv(alg, keys, 'x')
    r = x.sqrt()
    rr = dict((r*r).items())
    xs = dict(x.items())
    s = z3.Solver(); s.set('rlimit', 50000000)
    s.add(*CTX['assume']); s.add(xs[0].t > 0)
    t=time.time()
    print(sig, keys, 'assumptions sat?', s.check(), end=' ')
    s.add(z3.Or([ (rr.get(k, SV(z3.RealVal(0))).t != xs.get(k, SV(z3.RealVal(0))).t) for k in set(rr)|set(xs)]))
    print('sqrt^2==x:', s.check(), round(time.time()-t,2))
test((2,), (0,3)); test((1,1),(0,3)); test((2,0,1),(0,1)); test((2,0,1),(0,3)); test((3,),(0,3,5,6)); test((3,0,1),(0,3,5,6,9,10,12))
test((3,),(0,7)); test((4,),(0,15)); 
