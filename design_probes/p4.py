import time, z3, itertools, numpy as np
from fractions import Fraction
from kingdon import Algebra
from kingdon.multivector import MultiVector

class ValueBranch(Exception): pass
class SV:

    __slots__ = ('t',)
    def __init__(self, t): self.t = t
    @staticmethod
    def lift(o):
        if isinstance(o, SV): return o.t
        if isinstance(o, bool): raise TypeError
        if isinstance(o, (int, np.integer)): return z3.RealVal(int(o))
        if isinstance(o, Fraction): return z3.RealVal(str(o)) if o.denominator==1 else z3.Q(o.numerator, o.denominator)
        if isinstance(o, (float, np.floating)):
            n, d = float(o).as_integer_ratio(); return z3.Q(n, d)
        return None
    def _bin(self, o, f):
        t = SV.lift(o)
        if t is None: return NotImplemented
        return SV(f(self.t, t))
    def __add__(s, o): return s._bin(o, lambda a,b: a+b)
    def __radd__(s, o): return s._bin(o, lambda a,b: b+a)
    def __sub__(s, o): return s._bin(o, lambda a,b: a-b)
    def __rsub__(s, o): return s._bin(o, lambda a,b: b-a)
    def __mul__(s, o): return s._bin(o, lambda a,b: a*b)
    def __rmul__(s, o): return s._bin(o, lambda a,b: b*a)
    def __truediv__(s, o): return s._bin(o, lambda a,b: a/b)
    def __rtruediv__(s, o): return s._bin(o, lambda a,b: b/a)
    def __pow__(s, n):
        if isinstance(n, int) and n >= 0:
            r = z3.RealVal(1)
            for _ in range(n): r = r * s.t
            return SV(r)
        if isinstance(n, int): return SV(1/ (s**(-n)).t)
        raise ValueBranch('pow')
    def __neg__(s): return SV(-s.t)
    def __pos__(s): return s
    def __bool__(s): raise ValueBranch('bool of symbolic value')
    def __eq__(s, o): raise ValueBranch('eq')
    def __hash__(s): return hash(s.t)
    def __repr__(s): return f'SV({s.t})'

def symmv(alg, keys, name, arr=None):
    return MultiVector.fromkeysvalues(alg, tuple(keys), [SV(z3.Real(f'{name}{k}')) for k in keys])

alg = Algebra(2,0,1)
a = symmv(alg, range(8), 'a'); b = symmv(alg, (1,2,4), 'b')
print((a*b).values()[0])
# asmatrix with SV
t=time.time(); M = a.asmatrix(); print('asmatrix', M.shape, M.dtype, round(time.time()-t,3))
Mb = b.asmatrix()
P = M @ Mb
C = (a*b).asmatrix()
s = z3.Solver()
s.add(z3.Or([P[i,j].t != C[i,j].t if isinstance(P[i,j],SV) and isinstance(C[i,j],SV) else z3.BoolVal(True) for i in range(8) for j in range(8)]))
print(s.check())
# ndarray-valued mv of SV (object arrays)
vals = np.empty((3, 2), dtype=object)
for i in range(3):
    for j in range(2): vals[i,j] = SV(z3.Real(f'p{i}_{j}'))
p = alg.vector(vals)
print(p.shape)
r = (b >> p)
print(type(r.values()), getattr(r.values(), 'shape', None), r[1].values())
try:
    print(a.inv().values()[0])
except Exception as e: print('inv exc', type(e).__name__, e)
try:
    bool(a.values()[0])
except ValueBranch as e: print('VB ok')
