import time, z3, itertools
from kingdon import Algebra
from kingdon.multivector import MultiVector
def symmv(alg, keys, name):
    return MultiVector.fromkeysvalues(alg, tuple(keys), [z3.Real(f'{name}{k}') for k in keys])
def q(sig, keys, rl=20000000):
    alg = Algebra(*sig); n = 2**alg.d
    x = symmv(alg, keys, 'x'); y = symmv(alg, range(n), 'y')
    # denominator: hitzer
    from kingdon.codegen import codegen_hitzer_inv
    xi = x.inv()
    # get denominator: find division
    den = None
    def walk(e):
        global den
    dens=set()
    seen=set()
    st=[v for v in xi.values()]
    while st:
        e=st.pop()
        if e.get_id() in seen: continue
        seen.add(e.get_id())
        if e.decl().kind()==z3.Z3_OP_DIV: dens.add(e.arg(1))
        st.extend(e.children())
    den = list(dens)[0]
    p = dict((x*y).items())
    s = z3.Solver(); s.set('rlimit', rl)
    s.add(den == 0)
    for k in range(n):
        s.add(p.get(k, 0) == (1 if k==0 else 0))
    t=time.time(); r = s.check(); print(sig, keys, 'den=0 & x*y=1:', r, round(time.time()-t,2), s.statistics().get_key_value('rlimit count') if 'rlimit count' in s.statistics().keys() else '')
q((1,), (0,1)); q((0,1),(0,1))
q((2,), (0,1,2,3)); q((1,1),(0,1,2,3)); q((2,),(1,2)); q((2,),(0,3))
q((3,), (1,2,4)); q((3,),(0,3,5,6)); 
q((3,), tuple(range(8)))
