from kingdon import Algebra
from kingdon.multivector import MultiVector
def tryit(label, f):
    try:
        print(label, '->', f())
    except BaseException as e:
        print(label, 'RAISED', type(e).__name__, e)
alg = Algebra(2)
x = alg.multivector(e=2, e1=1)
y = alg.multivector(e2=3, e12=1)
def mk(src, sym=False):
    ns = {}
    exec(src, ns)
    f = ns['f']
    return alg.register(f) if not sym else alg.register(symbolic=True)(f), f
cases = [
 "def f(a): return a**-1",
 "def f(a): return a**-2",
 "def f(a): return a**2",
 "def f(a): return a**0",
 "def f(a): return a.e1",
 "def f(a): return a.e1 * a",
 "def f(a): return 1/a",
 "def f(a): return 2-a",
 "def f(a): return 2+a",
 "def f(a): return a-2",
 "def f(a): return 2*a",
 "def f(a): return a*2",
 "def f(a): return a/2",
 "def f(a): return a**0.5",
 "def f(a): return a.grade(1)",
 "def f(a): return a.grade(0,1)",
 "def f(a): return a.norm()",
 "def f(a): return a.normalized()",
 "def f(a): return a.dual()",
 "def f(a): return a.undual()",
 "def f(a): return 2 ^ a",
 "def f(a): return 2 | a",
 "def f(a): return 2 & a",
 "def f(a): return 2 >> a",
 "def f(a): return 2 @ a",
 "def f(a): return -a",
 "def f(a): return ~a",
 "def f(a): return a.exp()",
 "def f(a): return a.asfullmv()",
 "def f(a): return a.map(lambda v: 2*v)",
 "def f(a): return a + a.e",
]
for src in cases:
    for sym in (False, True):
        g, f = mk(src, sym)
        tryit(f'{src} sym={sym} direct', lambda: f(x))
        tryit(f'{src} sym={sym} REG   ', lambda: g(x))
