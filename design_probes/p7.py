import z3, time
def popcount(x, W):
    return z3.Sum([z3.ZeroExt(8, z3.Extract(i,i,x)) for i in range(W)])
for W in (8, 12, 16):
    kx, ky = z3.BitVecs('kx ky', W)
    E = W + 2
    X, Y = z3.ZeroExt(2, kx), z3.ZeroExt(2, ky)  # signed arithmetic in W+2 bits
    kout = X ^ Y
    diff = X - Y
    absd = z3.If(diff < 0, -diff, diff)   # signed compare
    # ip filter: kout == |kx-ky|  <=>  (kx&ky==kx or kx&ky==ky)
    s = z3.Solver()
    s.add((kout == absd) != z3.Or(kx & ky == kx, kx & ky == ky))
    t=time.time(); print(W, 'ip', s.check(), round(time.time()-t,2))
    # grade statement: popcount(kout) == |popcount(kx)-popcount(ky)| <=> subset
    pk, px, py = popcount(kx^ky, W), popcount(kx, W), popcount(ky, W)
    s = z3.Solver()
    s.add((pk == z3.If(px>=py, px-py, py-px)) != z3.Or(kx & ky == kx, kx & ky == ky))
    t=time.time(); print(W, 'grade |r-s|', s.check(), round(time.time()-t,2))
    s = z3.Solver()
    s.add((kout == X + Y) != (pk == px + py))
    t=time.time(); print(W, 'op', s.check(), round(time.time()-t,2))
    # involution: popcount%4 in (2,3)  <=> parity of g(g-1)/2
    g = popcount(kx, W)
    s = z3.Solver()
    half = z3.LShR(g*(g-1), 1)
    s.add(z3.Or(z3.URem(g,4)==2, z3.URem(g,4)==3) != (z3.Extract(0,0,half)==1))
    t=time.time(); print(W, 'reverse', s.check(), round(time.time()-t,2))
