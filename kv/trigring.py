"""
Coefficients from a function ring: sympy expressions in cos(t), sin(t) and plain symbols.

The products of such operands vanish on some blades only through cos^2 + sin^2 = 1 -- an identity
sympy's ``simplify`` (kingdon's default ``simp_func``) recognises but ``expand`` does not -- so they
exercise the stage of the symbolic path that decides which blades a result keeps
(OperatorDict.filter) with zeros of every strength: structural (x - x), polynomial, and trigonometric.

Solver side: cos(t), sin(t) are replaced by the rational parametrisation of the circle
c = (1-w^2)/(1+w^2), s = 2w/(1+w^2) in a free real w, so the identity holds for every value of w without
a side condition and a model of a failed claim is rational (replayable on exact fractions).  kingdon's
result is translated by Engine S after ``expand_trig`` and the substitution cos(t)->C, sin(t)->S; an
expression that still contains a function afterwards is Untranslatable (inconclusive, never a pass).
The expected value is the reference product of the same coefficients.
"""
from __future__ import annotations

import random

from .core import Eq, Fail, Note
from . import pat, ops, sy2z3
from .kapi import get_alg, kmap, coeffs, eq_claims

TEMPLATES = ['(1+u)*(sg-u+x*B)', 'u*u', 'u*u-sg', '(u*u)*v-sg*v', '(1+u)*(sg-u)', 'v*(u*u-sg)+x*B', '(u+x*B)*(u+x*B)', '(u|u)*v - sg*v + (u^u)']


def cases(tier, seed, binary_only=False, n_quick=40, n_thorough=400):
    rng = random.Random(seed * 7919 + 4242)
    out = []
    cfgs = [dict(p=2), dict(p=1, q=1), dict(q=2), dict(p=3), dict(p=2, q=1), dict(p=2, r=1), dict(p=1, q=2), dict(p=3, r=1), dict(p=2, start_index=0),
            dict(p=3, cse=False), dict(p=2, q=1, wrapper='identity')]
    for _ in range(n_quick if tier == 'quick' else n_thorough):
        cfg = rng.choice(cfgs)
        out.append(dict(kind='trig-ring', cfg=cfg, tseed=rng.randrange(10 ** 9), template=TEMPLATES[0] if binary_only else rng.choice(TEMPLATES),
                        permute=bool(rng.random() < 0.5)))
    return out


def _pick(alg, km, rng):
    """two anticommuting blades with the same non-zero square, and a third blade."""
    R = km.ref
    N = 2 ** alg.d
    cands = []
    for i in range(1, N):
        si = R.gp({i: 1}, {i: 1}).get(0, 0)
        if si == 0:
            continue
        for j in range(i + 1, N):
            sj = R.gp({j: 1}, {j: 1}).get(0, 0)
            if sj != si:
                continue
            ij, ji = R.gp({i: 1}, {j: 1}), R.gp({j: 1}, {i: 1})
            if all(ij.get(k, 0) == -ji.get(k, 0) for k in set(ij) | set(ji)):
                cands.append((i, j, si))
    if not cands:
        return None
    i, j, sg = rng.choice(cands)
    return i, j, sg, rng.randrange(N)


def run(desc, V):
    import sympy
    from kingdon.multivector import MultiVector
    alg = get_alg(desc['cfg'])
    km = kmap(alg)
    rng = random.Random(desc['tseed'])
    pk = _pick(alg, km, rng)
    if pk is None:
        return [Eq('void', 1, 1)]
    ri, rj, sg, rb = pk           # reference masks
    to_k = lambda m: km.ref2key[m][1]
    ki, kj, kb = to_k(ri), to_k(rj), to_k(rb)
    t, xs = sympy.Symbol('t'), sympy.Symbol('x')
    w, xv = V.var('w'), V.var('x')
    cv = (1 - w * w) / (1 + w * w)
    sv = (2 * w) / (1 + w * w)
    # an extra blade with a plain symbol in v
    kv_ = sorted({ki, kb, rng.randrange(2 ** alg.d)})
    ys = [sympy.Symbol(f'y{n}') for n in range(len(kv_))]
    yv = [V.var(f'y{n}') for n in range(len(kv_))]

    def build(mk, cosv, sinv, x_, y_):
        ukeys, uvals = [ki, kj], [cosv, sinv]
        if desc['permute']:
            ukeys, uvals = ukeys[::-1], uvals[::-1]
        u = mk(tuple(ukeys), uvals)
        B = mk((kb,), [1])
        v = mk(tuple(kv_), list(y_))
        return dict(u=u, v=v, B=B, x=x_, sg=sg)

    mk_s = lambda keys, vals: alg.multivector(keys=keys, values=list(vals))
    mk_n = lambda keys, vals: MultiVector.fromkeysvalues(alg, keys, list(vals))
    env_s = build(mk_s, sympy.cos(t), sympy.sin(t), xs, ys)
    env_n = build(mk_n, cv, sv, xv, yv)
    r_s = eval(desc['template'], dict(env_s))
    r_n = eval(desc['template'], dict(env_n))
    fkey = 'trig-ring|' + desc['template']
    claims = [Note('nontrivial', '')]
    if not isinstance(r_s, MultiVector):
        return [Fail('type', f'result is {type(r_s).__name__}', fkey)]
    if len(r_s.keys()) != len(r_s.values()):
        return [Fail('keys-vs-values', f'{len(r_s.keys())} keys {tuple(r_s.keys())} but {len(r_s.values())} values', fkey)]
    if len(set(r_s.keys())) != len(r_s.keys()):
        claims.append(Fail('dupkeys', f'result stores a blade twice: {tuple(r_s.keys())}', fkey))
    C, S = sympy.Symbol('C__'), sympy.Symbol('S__')
    env = {'C__': cv, 'S__': sv, 'x': xv, **{f'y{n}': yv[n] for n in range(len(kv_))}}
    got = {}
    for k, val in coeffs(r_s).items():
        e = sympy.expand_trig(sympy.sympify(val)).xreplace({sympy.cos(t): C, sympy.sin(t): S})
        if e.has(t):
            e = sympy.expand_trig(sympy.expand(e)).rewrite(sympy.cos).xreplace({sympy.cos(t): C, sympy.sin(t): S})
        if e.has(t):
            raise sy2z3.Untranslatable(f'coefficient still depends on t after expand_trig: {str(e)[:80]}')
        got[k] = sy2z3.to_value(e, env)
    claims += eq_claims('ring', got, coeffs(r_n), fkey=fkey)
    # the other substitution route the property names: CALLING the symbolic result (concrete floats: sampling, stated as such)
    if not V.symbolic or True:
        import math
        from .core import concrete_equal
        fs = sorted(str(s_) for s_ in r_s.free_symbols)
        tv = 0.7
        vals = {'t': tv, 'x': 1.25, **{f'y{n}': 0.5 + n for n in range(len(kv_))}}
        if fs and all(n in vals for n in fs):
            try:
                called = r_s(**{n: vals[n] for n in fs})
            except Exception as e:  # noqa
                claims.append(Fail('call:raises', f'calling the symbolic result with numbers for {fs} raises {type(e).__name__}: {e} (sympy substitution works)', fkey='trig-ring|call|raises'))
                return claims
            num = build(mk_n, math.cos(tv), math.sin(tv), vals['x'], [vals[f'y{n}'] for n in range(len(kv_))])
            want = coeffs(eval(desc['template'], dict(num)))
            gotc = coeffs(called)
            for k in set(gotc) | set(want):
                if not concrete_equal(gotc.get(k, 0), want.get(k, 0), tol=1e-9):
                    claims.append(Fail(f'call[{k}]', f'calling the symbolic result gives {gotc.get(k, 0)!r} on blade {k}, numeric evaluation {want.get(k, 0)!r}', fkey='trig-ring|call|value'))
    return claims
