"""
Bounded enumeration of thread schedules over the real code (C09: "from any number of threads").

Real ``threading.Thread``s execute kingdon's real functions, but never concurrently: a baton decides which
thread runs.  A thread can lose the baton only at a *yield point* -- a line boundary inside one of the
watched code objects (by default every function of kingdon/operator_dict.py and the drivers do_codegen /
do_compile / lambdify of kingdon/codegen.py: the check-then-generate-then-publish sequences).  The
scheduler explores, depth first, every schedule with at most ``max_preempt`` preemptions (a switch away
from a thread that could have continued; switches at thread exit are free) -- the context bound of
Musuvathi & Qadeer's CHESS.  Operand values stay solver terms during every schedule, so per schedule
the verdict "both results equal the fresh-algebra result" is the solver's, for all values.

Granularity: CPython can switch threads between any two bytecodes; line boundaries of the watched
functions are a subset (stated bound).  Code outside the watched functions runs atomically.
"""
from __future__ import annotations

import sys
import threading


class ScheduleError(Exception):
    pass


class _Run:
    def __init__(self, bodies, prefix, watched, timeout):
        self.bodies = bodies
        self.prefix = list(prefix)
        self.watched = watched
        self.timeout = timeout
        self.n = len(bodies)
        self.cv = threading.Condition()
        self.current = None
        self.finished = [False] * self.n
        self.started = [False] * self.n
        self.results = [None] * self.n
        self.errors = [None] * self.n
        self.trace = []          # decisions taken: thread id chosen at each choice point
        self.alts = []           # (position, alternative thread id, preemptive?)
        self.dead = False

    # -- choice point: called by the thread holding the baton
    def _choose(self, tid, at_exit):
        enabled = [i for i in range(self.n) if not self.finished[i]]
        if not enabled:
            return None
        pos = len(self.trace)
        if pos < len(self.prefix):
            nxt = self.prefix[pos]
            if nxt not in enabled:
                raise ScheduleError(f'schedule prefix names thread {nxt} which is not enabled at step {pos}')
        else:
            nxt = tid if (not at_exit and tid in enabled) else enabled[0]
            for o in enabled:
                if o != nxt:
                    self.alts.append((pos, o, (not at_exit)))
        self.trace.append(nxt)
        return nxt

    def yield_point(self, tid):
        with self.cv:
            if self.dead:
                raise ScheduleError('run aborted')
            nxt = self._choose(tid, at_exit=False)
            if nxt != tid:
                self.current = nxt
                self.cv.notify_all()
                self._wait_for(tid)

    def _wait_for(self, tid):
        while self.current != tid:
            if not self.cv.wait(self.timeout):
                self.dead = True
                self.cv.notify_all()
                raise ScheduleError(f'thread {tid} waited more than {self.timeout}s for the baton')
            if self.dead:
                raise ScheduleError('run aborted')

    def _thread_main(self, tid):
        def local_trace(frame, event, arg):
            if event == 'line':
                self.yield_point(tid)
            return local_trace

        def global_trace(frame, event, arg):
            if event == 'call' and self.watched(frame.f_code):
                return local_trace
            return None

        with self.cv:
            try:
                self._wait_for(tid)
            except ScheduleError as e:
                self.errors[tid] = e
                return
        sys.settrace(global_trace)
        try:
            self.results[tid] = self.bodies[tid]()
        except ScheduleError as e:
            self.errors[tid] = e
        except BaseException as e:  # noqa
            self.errors[tid] = e
        finally:
            sys.settrace(None)
            with self.cv:
                self.finished[tid] = True
                if not self.dead:
                    try:
                        nxt = self._choose(tid, at_exit=True)
                    except ScheduleError as e:
                        self.errors[tid] = self.errors[tid] or e
                        self.dead = True
                        nxt = None
                    self.current = nxt
                self.cv.notify_all()

    def go(self):
        ths = [threading.Thread(target=self._thread_main, args=(i,), daemon=True) for i in range(self.n)]
        for t in ths:
            t.start()
        with self.cv:
            first = self.prefix[0] if self.prefix else 0
            self.trace.append(first)
            if not self.prefix:
                for o in range(1, self.n):
                    self.alts.append((0, o, False))
            self.current = first
            self.cv.notify_all()
        for t in ths:
            t.join(self.timeout * 4)
            if t.is_alive():
                with self.cv:
                    self.dead = True
                    self.cv.notify_all()
                raise ScheduleError('a thread did not finish (deadlock in the scheduler or in the code under test)')
        return self


def default_watched(code):
    fn = code.co_filename.replace('\\', '/')
    if fn.endswith('kingdon/operator_dict.py'):
        return True
    if fn.endswith('kingdon/codegen.py') and code.co_name in ('do_codegen', 'do_compile', 'lambdify', '_lambdify_mv'):
        return True
    if fn.endswith('kingdon/multivector.py') and code.co_name in ('__call__', '_callable'):
        return True
    if fn.endswith('kingdon/algebra.py') and code.co_name in ('register', 'wrap', 'wrapper', '__post_init__'):
        return True
    return False


def explore(make_bodies, max_preempt=1, max_schedules=2000, watched=default_watched, timeout=30.0):
    """
    Depth-first enumeration of schedules.  ``make_bodies()`` is called once per schedule and returns
    (bodies, finish) where bodies is a list of zero-argument callables (one per thread) on a FRESH state and
    finish(results, errors, trace) produces that schedule's outcome.  Yields (trace, outcome).
    Returns the list of outcomes and a dict of statistics.
    """
    stack = [([], 0)]
    seen = 0
    truncated = False
    outcomes = []
    maxlen = 0
    while stack:
        prefix, used = stack.pop()
        if seen >= max_schedules:
            truncated = True
            break
        bodies, finish = make_bodies()
        run = _Run(bodies, prefix, watched, timeout).go()
        seen += 1
        maxlen = max(maxlen, len(run.trace))
        for e in run.errors:
            if isinstance(e, ScheduleError):
                raise e
        outcomes.append((list(run.trace), finish(run.results, run.errors, run.trace)))
        for pos, alt, preemptive in run.alts:
            if pos < len(prefix):
                continue
            c = used + (1 if preemptive else 0)
            if c > max_preempt:
                continue
            stack.append((run.trace[:pos] + [alt], c))
    return outcomes, dict(schedules=seen, truncated=truncated, max_yield_points=maxlen, max_preempt=max_preempt)
