"""
Key-pattern and configuration enumerators (the stated bounds).  Deterministic given a seed.

A *pattern* is the ordered tuple of binary blade keys a multivector stores.
"""
from __future__ import annotations

import itertools
import random

from .ref import popcount


def canon_order(d, start_index=1):
    """canonical key order of kingdon's default basis: by grade, then by blade name."""
    def name(k):
        return ''.join(hex(i + start_index)[2:] for i in range(d) if k >> i & 1)
    return sorted(range(2 ** d), key=lambda k: (popcount(k), name(k)))


def EXH(d):
    """all subsets of blades in all orders (use for d <= 2 only)."""
    out = []
    ks = list(range(2 ** d))
    for n in range(len(ks) + 1):
        for sub in itertools.combinations(ks, n):
            for perm in itertools.permutations(sub):
                out.append(tuple(perm))
    return out


def SUB(d, order=None):
    """all subsets in canonical order."""
    order = order or canon_order(d)
    out = []
    for mask in range(2 ** len(order)):
        out.append(tuple(k for i, k in enumerate(order) if mask >> i & 1))
    return out


def GRD(d, order=None, max_grades=None):
    """all unions of complete grades (canonical order), optionally with at most max_grades grades."""
    order = order or canon_order(d)
    out = []
    for n in range(0, d + 2):
        if max_grades is not None and n > max_grades:
            break
        for gs in itertools.combinations(range(d + 1), n):
            out.append(tuple(k for k in order if popcount(k) in gs))
    return out


def ONE(d):
    return [(k,) for k in range(2 ** d)]


def FULL(d, order=None):
    order = order or canon_order(d)
    return [tuple(order), tuple(range(2 ** d))]


def RND(d, n, rng: random.Random, max_len=None, min_len=0, shuffle=True, order=None):
    """n random sparse patterns (random subset, random order)."""
    order = order or canon_order(d)
    N = 2 ** d
    out = []
    for _ in range(n):
        hi = min(N, max_len or N)
        ln = rng.randint(min_len, hi)
        if rng.random() < 0.3:
            ln = min(ln, 3)
        ks = rng.sample(range(N), ln)
        if shuffle and rng.random() < 0.6:
            rng.shuffle(ks)
        else:
            ks.sort(key=order.index)
        out.append(tuple(ks))
    return out


def perms(pattern, rng: random.Random, limit=6):
    """permutations of a pattern (all if <= limit!, else sampled), excluding the identity."""
    pattern = tuple(pattern)
    if len(pattern) <= 1:
        return []
    if len(pattern) <= 4:
        ps = [p for p in itertools.permutations(pattern) if p != pattern]
        if len(ps) > limit:
            ps = rng.sample(ps, limit)
        return ps
    out = set()
    tries = 0
    while len(out) < limit and tries < 50:
        tries += 1
        p = list(pattern)
        rng.shuffle(p)
        if tuple(p) != pattern:
            out.add(tuple(p))
    out.add(tuple(reversed(pattern)))
    return sorted(out)


def pads(pattern, d, rng: random.Random, order=None, limit=3):
    """zero-padded supersets: a few random ones, the dense canonical and the dense binary layout."""
    order = order or canon_order(d)
    N = 2 ** d
    missing = [k for k in range(N) if k not in pattern]
    out = []
    for _ in range(limit):
        if not missing:
            break
        extra = rng.sample(missing, rng.randint(1, len(missing)))
        ks = list(pattern) + extra
        rng.shuffle(ks)
        out.append(tuple(ks))
    out.append(tuple(order))
    out.append(tuple(range(N)))
    return out


def pqr_all(d):
    return [(p, q, d - p - q) for p in range(d, -1, -1) for q in range(d - p, -1, -1)]


def signatures_all(d):
    return list(itertools.product((1, -1, 0), repeat=d))


def random_basis(sig_pqr, rng: random.Random, start_index=None):
    """
    An admissible custom basis for a (p,q,r) algebra: generator order permuted, every blade
    spelled by a random permutation of its generators, blades shuffled within each grade.
    Returns the basis list (ordered by grade as kingdon requires).
    """
    p, q, r = sig_pqr
    d = p + q + r
    if start_index is None:
        start_index = 0 if r == 1 else 1
    names = [hex(i + start_index)[2:] for i in range(d)]
    gens = names[:]
    rng.shuffle(gens)
    basis = ['e']
    for g in range(1, d + 1):
        blades = []
        for comb in itertools.combinations(gens, g):
            comb = list(comb)
            if g > 1:
                rng.shuffle(comb)
            blades.append('e' + ''.join(comb))
        if g > 1:
            rng.shuffle(blades)
        basis.extend(blades)
    return basis


def all_bases(sig_pqr, start_index=None):
    """every admissible custom basis of a d <= 2 algebra."""
    p, q, r = sig_pqr
    d = p + q + r
    if start_index is None:
        start_index = 0 if r == 1 else 1
    names = [hex(i + start_index)[2:] for i in range(d)]
    out = []
    for gens in itertools.permutations(names):
        grades = []
        for g in range(1, d + 1):
            if g == 1:
                grades.append([['e' + x for x in gens]])
                continue
            blades_opts = []
            for comb in itertools.combinations(gens, g):
                blades_opts.append(['e' + ''.join(pm) for pm in itertools.permutations(comb)])
            choices = []
            for pick in itertools.product(*blades_opts):
                for order in itertools.permutations(pick):
                    choices.append(list(order))
            grades.append(choices)
        for combo in itertools.product(*grades):
            basis = ['e']
            for g in combo:
                basis.extend(g)
            out.append(basis)
    return out


def random_cfg(rng: random.Random, d=None, options=True):
    """
    A random algebra configuration drawn over ALL construction axes at once: (p,q,r) / explicit signature
    ordering / custom basis, start index (incl. hex-letter generator names), and - if ``options`` - cse,
    wrapper kind, codegen symbol class, derivation with dataclasses.replace.  Returns (cfg, d).
    """
    d = d or rng.choice((1, 2, 2, 3, 3, 3, 4))
    sig = [rng.choice((1, 1, -1, 0)) for _ in range(d)]
    p, q, r = sig.count(1), sig.count(-1), sig.count(0)
    mode = rng.choice(['pqr', 'pqr', 'signature', 'basis'])
    if mode == 'pqr':
        cfg = dict(p=p, q=q, r=r)
    elif mode == 'signature':
        cfg = dict(signature=sig)
    else:
        # (hex-letter generator names in custom bases are accepted since the fix 1831c58 of /repo)
        cfg = dict(p=p, q=q, r=r, basis=random_basis((p, q, r), rng, start_index=rng.choice([s for s in (0, 1, 1, 2, 5, 9, 10, 12) if s + d - 1 <= 15])))
    if mode != 'basis' and rng.random() < 0.4:
        cfg['start_index'] = rng.choice([s for s in (0, 1, 2, 5, 10, 11, 12) if s + d - 1 <= 15])
    if options:
        if rng.random() < 0.2:
            cfg['cse'] = False
        if rng.random() < 0.25:
            cfg['wrapper'] = rng.choice(['identity', 'wraps', 'closure'])
        if rng.random() < 0.12:
            cfg['symbolcls'] = 'sympy'
        if mode != 'basis' and rng.random() < 0.1:
            cfg['derive'] = rng.choice([dict(cse=False), dict(signature=[rng.choice((1, -1, 0)) for _ in range(d)])])
    return cfg, d


def random_pattern(rng: random.Random, d, max_len=5, allow_empty=True):
    N = 2 ** d
    if allow_empty and rng.random() < 0.06:
        return ()
    n = rng.randint(1, min(N, max_len))
    ks = rng.sample(range(N), n)
    if rng.random() < 0.5:
        ks.sort()
    return tuple(ks)
