"""
Operator tables shared by the property modules: how each operator is invoked through
kingdon's public surface, and its reference-model counterpart (kv.ref) where one exists.
"""
from __future__ import annotations

import operator

from .ref import KMap

# ---- kingdon side --------------------------------------------------------------

BINARY = {
    # name: (infix callable or None, method name)
    'gp': (operator.mul, 'gp'),
    'op': (operator.xor, 'op'),
    'ip': (operator.or_, 'ip'),
    'rp': (operator.and_, 'rp'),
    'sw': (operator.rshift, 'sw'),
    'proj': (operator.matmul, 'proj'),
    'add': (operator.add, 'add'),
    'sub': (operator.sub, 'sub'),
    'div': (operator.truediv, 'div'),
    'lc': (None, 'lc'),
    'rc': (None, 'rc'),
    'sp': (None, 'sp'),
    'cp': (None, 'cp'),
    'acp': (None, 'acp'),
}

UNARY = {
    'neg': (operator.neg, 'neg'),
    'reverse': (operator.invert, 'reverse'),
    'involute': (None, 'involute'),
    'conjugate': (None, 'conjugate'),
    'hodge': (None, 'hodge'),
    'unhodge': (None, 'unhodge'),
    'polarity': (None, 'polarity'),
    'unpolarity': (None, 'unpolarity'),
    'normsq': (None, 'normsq'),
    'inv': (None, 'inv'),
    'sqrt': (None, 'sqrt'),
    'outerexp': (None, 'outerexp'),
    'outersin': (None, 'outersin'),
    'outercos': (None, 'outercos'),
    'outertan': (None, 'outertan'),
}

PRODUCTS = ['gp', 'op', 'ip', 'lc', 'rc', 'sp', 'cp', 'acp', 'rp']
LINEAR_UNARY = ['neg', 'reverse', 'involute', 'conjugate', 'hodge', 'unhodge']


def call_binary(name, a, b, route='infix'):
    """route: 'infix' (a op b when an infix exists), 'method' (a.name(b)), 'alg' (alg.name(a, b))."""
    infix, meth = BINARY[name]
    if route == 'infix' and infix is not None:
        return infix(a, b)
    if route == 'alg':
        return getattr(a.algebra, name)(a, b)
    return getattr(a, meth)(b)


def call_unary(name, a, route='infix'):
    infix, meth = UNARY[name]
    if route == 'infix' and infix is not None:
        return infix(a)
    if route == 'alg':
        return getattr(a.algebra, name)(a)
    return getattr(a, meth)()


# ---- reference side ------------------------------------------------------------

def ref_binary(km: KMap, name, A: dict, B: dict) -> dict:
    """A, B, result: {kingdon key: value}."""
    R = km.ref
    a, b = km.to_ref(A), km.to_ref(B)
    if name == 'rp':
        r = R.rp(a, b, km.sigma)
    else:
        r = getattr(R, name)(a, b)
    return km.from_ref(r)


def ref_unary(km: KMap, name, A: dict) -> dict:
    R = km.ref
    a = km.to_ref(A)
    if name in ('hodge', 'unhodge', 'polarity', 'unpolarity'):
        r = getattr(R, name)(a, km.sigma)
    else:
        r = getattr(R, name)(a)
    return km.from_ref(r)
