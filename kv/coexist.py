"""
Algebras that coexist in one process.

kingdon keeps state at three levels: per operator (the pattern cache), per algebra (numspace, sign table) and
per process (module-level objects, linecache, functools caches).  Two algebras that share blade NAMES but differ
in binary numbering, metric or options are the inputs on which process-level state shows: the same named
operands are combined on the first algebra, then on the second, then on the first again, every result being
compared with the reference model of the algebra it was computed in (values are solver terms).
"""
from __future__ import annotations

import random

from .core import Eq, Fail, Note
from . import ops, pat
from .kapi import make_alg, kmap, coeffs, mv_eq_claims

TWINS = [
    (dict(p=2, r=1), dict(name='2DPGA')), (dict(p=3, r=1), dict(name='3DPGA')),
    (dict(p=3), dict(p=3, basis=['e', 'e3', 'e2', 'e1', 'e23', 'e13', 'e12', 'e123'])),
    (dict(p=3), dict(p=3, basis=['e', 'e1', 'e2', 'e3', 'e12', 'e31', 'e23', 'e321'])),
    (dict(p=2, q=1), dict(signature=[-1, 1, 1])), (dict(p=2, r=1), dict(p=2, q=1, start_index=0)), (dict(p=4, q=1), dict(name='STAP')),
    (dict(p=3, start_index=0), dict(p=2, r=1)), (dict(p=3), dict(p=3, cse=False)), (dict(p=2, q=2), dict(signature=[1, -1, 1, -1])),
    (dict(p=2), dict(q=2)), (dict(p=3), dict(p=3, symbolcls='sympy')), (dict(p=2, r=1), dict(p=2, r=1, wrapper='identity')),
]


def cases(tier, seed, salt, n_quick=20, n_thorough=150):
    rng = random.Random(seed * 7919 + salt)
    out = []
    for A, B in TWINS:
        for first, second in ((A, B), (B, A)):
            for _ in range(n_quick if tier == 'quick' else n_thorough):
                out.append(dict(kind='coexist', cfgs=[first, second], tseed=rng.randrange(10 ** 9)))
    return out


def run(desc, V, binary=(), unary=(), max_blades=3):
    from kingdon.multivector import MultiVector
    rng = random.Random(desc['tseed'])
    A, B = make_alg(desc['cfgs'][0]), make_alg(desc['cfgs'][1])
    common = [n for n in A.canon2bin if n in B.canon2bin]
    sizes = (1, 1, 2, 2, 3)[: 2 + max_blades]
    na = rng.sample(common, min(len(common), rng.choice(sizes)))
    nb = rng.sample(common, min(len(common), rng.choice(sizes)))
    va = [V.var(f'a_{n}') for n in na]
    vb = [V.var(f'b_{n}') for n in nb]
    bins = list(binary) if len(binary) <= 3 else rng.sample(list(binary), 3)
    uns = list(unary) if len(unary) <= 3 else rng.sample(list(unary), 3)
    claims = [Note('nontrivial', '')]
    for step, alg in enumerate((A, B, A)):
        km = kmap(alg)
        a = MultiVector.fromkeysvalues(alg, tuple(alg.canon2bin[n] for n in na), list(va))
        b = MultiVector.fromkeysvalues(alg, tuple(alg.canon2bin[n] for n in nb), list(vb))
        for op in bins:
            try:
                want = ops.ref_binary(km, op, coeffs(a), coeffs(b))
            except ZeroDivisionError:
                continue
            try:
                got = ops.call_binary(op, a, b, 'method')
            except ZeroDivisionError:
                continue
            claims += mv_eq_claims(f'{op}#{step}', got, want, fkey=f'coexist|{op}')
        for op in uns:
            if op in ('polarity', 'unpolarity') and alg.r:
                continue
            try:
                want = ops.ref_unary(km, op, coeffs(a))
            except ZeroDivisionError:
                continue
            try:
                got = ops.call_unary(op, a, 'method')
            except ZeroDivisionError:
                continue
            claims += mv_eq_claims(f'{op}#{step}', got, want, fkey=f'coexist|{op}')
    return claims
