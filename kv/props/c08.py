"""
C08 -- results do not depend on how an operand is stored.

Metamorphic, decided by the solver: for each operator and each base key pattern with symbolic
coefficients, storage variants of the SAME elements are built -- permutations of the key tuple,
zero-padded supersets (explicit 0 coefficients) up to the dense canonical and the dense binary
layout, asfullmv() and asfullmv(canonical=False) -- the real operator is run on base and variant
(different generated programs: the cache is keyed by the ordered key tuple) and ONE query per
case proves coefficient-wise equality on every blade, for all coefficient values.  Only the
stored key SET may differ: a blade one side does not store must be identically zero on the
other.  inv/div/outertan under their recorded non-zero denominators; sqrt/normalized inside
their domain (Study number, positive scalar part).
"""
from __future__ import annotations

import random

import z3

from ..core import Eq, Fail, Note
from .. import pat, ops, sym
from ..kapi import get_alg, mv, coeffs, mv_eq_claims, eq_claims, kmap, twice_on_wrapper

PROP = 'C08'
LEVEL = 'translation_validation'
ENGINES = ['A']
FUNCTIONS = ['OperatorDict.__getitem__ (cache keyed by ordered key tuple)', 'do_codegen (argument unpacking in mv.values() order)',
             'lambdify / func_builder / KingdonPrinter._print_unpacking', 'MultiVector.asfullmv', 'MultiVector.fromkeysvalues',
             'all 14 binary and 15 unary codegen_* functions', 'the generated functions of base and variant patterns']
ASSUMPTIONS = ['coefficients are reals; explicit zeros are the integer 0', 'inv/div/outertan: recorded denominators non-zero; sqrt/normalized: Study number with positive scalar part']
BOUNDS = {'quick': '23 further public methods (duals by kind, norm, normalized, powers of either sign, grade selection, map, filter, dense forms, number on either side of / and -) under all variants; (p,q,r) d<=3; every operator x base patterns (d<=2 subsets, d=3 random sparse) x {permutations, random paddings, dense canonical, dense binary, asfullmv both}; wrapper algebras with a second pass; compiled registered functions on storage variants; d=6 inverse / division with the scalar part of the operand stored first / second / last / padded',
          'thorough': 'all (p,q,r) d=3, d=4 sparse bases, more bases per operator'}
OUTSIDE = ['d > 4', 'key tuples with repeated blades', 'floating-point rounding']
OPTS = {'rlimit': 300_000_000, 'canary_every': 12}

BIN = ['gp', 'op', 'ip', 'lc', 'rc', 'sp', 'cp', 'acp', 'rp', 'add', 'sub', 'sw', 'proj', 'div']
UN = ['neg', 'reverse', 'involute', 'conjugate', 'hodge', 'unhodge', 'polarity', 'unpolarity', 'normsq', 'inv',
      'outerexp', 'outersin', 'outercos', 'outertan', 'sqrt']


def _variants(base, d, rng, n_perm=2, n_pad=2):
    out = []
    for p in pat.perms(base, rng, limit=n_perm):
        out.append(dict(keys=list(p), how='perm'))
    for p in pat.pads(base, d, rng, limit=n_pad):
        if tuple(p) != tuple(base):
            out.append(dict(keys=list(p), how='pad'))
    out.append(dict(keys=None, how='asfullmv'))
    out.append(dict(keys=None, how='asfullmv-binary'))
    return out


def cases(tier, seed):
    rng = random.Random(seed * 7919 + 8)
    out = []
    cfgs = [dict(p=2), dict(p=1, q=1), dict(p=1, r=1), dict(p=3), dict(p=2, r=1), dict(p=1, q=2), dict(name='2DPGA')]
    if tier == 'thorough':
        cfgs = [dict(p=p, q=q, r=r) for d in (2, 3) for p, q, r in pat.pqr_all(d)] + [dict(name='2DPGA'), dict(p=3, r=1), dict(p=2, q=2), dict(name='3DPGA')]
    nb = 3 if tier == 'quick' else 8
    # routes that resolve generated functions by name: wrapper algebras (two passes) and registered functions
    for cfg in (dict(p=2, wrapper='identity'), dict(p=3, wrapper='wraps'), dict(p=2, r=1, wrapper='identity')):
        d = sum(v for k, v in cfg.items() if k in 'pqr')
        S = [s for s in pat.SUB(d) if 2 <= len(s) <= 4]
        for op in BIN[:11]:
            for _ in range(3 if tier == 'quick' else 10):
                ka, kb = list(rng.choice(S)), list(rng.choice(S))
                va = [dict(keys=list(p), how='perm') for p in pat.perms(ka, rng, limit=3)][:3]
                vb = [dict(keys=list(p), how='perm') for p in pat.perms(kb, rng, limit=2)][:2] or [dict(keys=None, how='asfullmv')]
                out.append(dict(kind='binary', cfg=cfg, op=op, ka=ka, kb=kb, va=va or [dict(keys=None, how='asfullmv-binary')], vb=vb))
        for op in UN[:9]:
            if op in ('polarity', 'unpolarity') and cfg.get('r'):
                continue
            for _ in range(2 if tier == 'quick' else 6):
                ka = list(rng.choice(S))
                out.append(dict(kind='unary', cfg=cfg, op=op, ka=ka, va=[dict(keys=list(p), how='perm') for p in pat.perms(ka, rng, limit=4)]))
    for cfg in (dict(p=2), dict(p=3), dict(p=2, r=1), dict(p=3, r=1)):
        d = sum(cfg.values())
        S = [s for s in (pat.SUB(d) if d <= 3 else pat.RND(d, 80, rng, max_len=6)) if 2 <= len(s) <= 6]
        for op in REG_SRC:
            for _ in range(4 if tier == 'quick' else 15):
                ka, kb = list(rng.choice(S)), list(rng.choice(S))
                if op == 'sw' and d >= 3:
                    ka, kb = ka[:3], kb[:3]
                out.append(dict(kind='registered', cfg=cfg, op=op, ka=ka, kb=kb, va=_variants(ka, d, rng, n_perm=3, n_pad=1),
                                vb=_variants(kb, d, rng, n_perm=1, n_pad=1)[:2]))
    # d = 4: inverse / division of single-grade, NON-simple operands (e12 + e34) under storage variants
    for cfg in (dict(p=4), dict(p=3, r=1), dict(p=1, q=3)):
        for ka in ([3, 12], [3, 12, 5], [6, 9], [7, 11]):
            va = [dict(keys=list(reversed(ka)), how='perm'), dict(keys=[0] + ka, how='pad'), dict(keys=ka + [15], how='pad'), dict(keys=None, how='asfullmv')]
            out.append(dict(kind='unary', cfg=cfg, op='inv', ka=ka, va=va))
            out.append(dict(kind='binary', cfg=cfg, op='div', ka=[1, 2], kb=ka, va=[dict(keys=[2, 1], how='perm')], vb=va[:3]))
    # d = 6 (the iterative inverse): operands WITH a scalar part, stored with the scalar first / second / last and padded
    for cfg in (dict(p=6), dict(p=4, q=1, r=1)):
        for ka in ([0, 1, 3], [0, 6, 24]):
            va = [dict(keys=[ka[1], ka[0], ka[2]], how='perm'), dict(keys=[ka[2], ka[1], ka[0]], how='perm'), dict(keys=[ka[1], ka[2], 63, ka[0]], how='pad')]
            out.append(dict(kind='unary', cfg=cfg, op='inv', ka=ka, va=va))
        out.append(dict(kind='binary', cfg=cfg, op='div', ka=[1, 2], kb=[0, 1, 3], va=[dict(keys=[2, 1], how='perm')],
                        vb=[dict(keys=[3, 0, 1], how='perm'), dict(keys=[1, 3, 0], how='perm')]))
    # the remaining public methods (duals by kind, norms, powers, grade selection, map, dense forms)
    for cfg in (dict(p=2), dict(p=1, q=1), dict(p=3), dict(p=2, r=1), dict(p=1, q=2), dict(p=3, r=1), dict(p=2, r=2)):
        d = sum(cfg.values())
        order = pat.canon_order(d, 0 if cfg.get('r') == 1 else 1)
        vec = [k for k in order if bin(k).count('1') == 1]
        S = [s_ for s_ in (pat.SUB(d) if d <= 3 else pat.RND(d, 60, rng, max_len=4)) if 1 <= len(s_) <= 4]
        for m in METHODS:
            for _ in range(2 if tier == 'quick' else 8):
                ka = list(rng.choice(S))
                if m in ('norm', 'normalized'):
                    ka = rng.sample(vec, rng.randint(1, len(vec))) if rng.random() < 0.7 else [rng.randrange(1, 2 ** d)]
                if m.startswith('pow-') and d >= 3:
                    ka = ka[:3]
                va = _variants(ka, d, rng)
                if (m.startswith('pow-') or m in ('normalized',)) and d >= 3:
                    va = [v for v in va if v['how'] in ('perm', 'pad')][:3] or va[:1]
                out.append(dict(kind='method', cfg=cfg, op=m, ka=ka, va=va))
    # configuration fuzz over all construction axes
    for i in range(60 if tier == 'quick' else 600):
        cfg, d = pat.random_cfg(rng, d=rng.choice((2, 2, 3, 3)))
        op = rng.choice(BIN[:11])
        ka, kb = list(pat.random_pattern(rng, d, max_len=4, allow_empty=False)), list(pat.random_pattern(rng, d, max_len=4, allow_empty=False))
        out.append(dict(kind='binary', cfg=cfg, op=op, ka=ka, kb=kb, va=rng.sample(_variants(ka, d, rng), 2), vb=rng.sample(_variants(kb, d, rng), 2)))
    for cfg in cfgs:
        d = 3 if cfg.get('name') == '2DPGA' else (4 if cfg.get('name') == '3DPGA' else sum(v for k, v in cfg.items() if k in 'pqr'))
        nondeg = cfg.get('r', 0) == 0 and 'name' not in cfg
        S = [s for s in (pat.SUB(d) if d <= 3 else pat.RND(d, 60, rng, max_len=5)) if 1 <= len(s) <= (4 if d <= 3 else 5)]
        for op in BIN:
            for _ in range(nb):
                ka, kb = list(rng.choice(S)), list(rng.choice(S))
                if op in ('sw', 'proj', 'div') and d >= 3:
                    ka, kb = ka[:3], kb[:3]
                va = rng.sample(_variants(ka, d, rng), 2)
                vb = rng.sample(_variants(kb, d, rng), 2)
                out.append(dict(kind='binary', cfg=cfg, op=op, ka=ka, kb=kb, va=va, vb=vb))
        for op in UN:
            if op in ('polarity', 'unpolarity') and not nondeg:
                continue
            for _ in range(nb):
                ka = list(rng.choice(S))
                if op in ('inv', 'outertan') and d >= 3:
                    ka = ka[:3]
                if op == 'outertan' and d >= 4:
                    continue
                if op == 'sqrt':
                    # Study number: scalar + one non-scalar blade
                    ka = [0, rng.randrange(1, 2 ** d)]
                va = _variants(ka, d, rng)
                if op in ('inv', 'outertan', 'sqrt') and d >= 3:
                    va = [v for v in va if v['how'] in ('perm', 'pad')][:3]
                out.append(dict(kind='unary', cfg=cfg, op=op, ka=ka, va=va))
    return out


def _variant_mv(alg, base_mv, var):
    from kingdon.multivector import MultiVector
    if var['how'] == 'asfullmv':
        return base_mv.asfullmv()
    if var['how'] == 'asfullmv-binary':
        return base_mv.asfullmv(canonical=False)
    B = coeffs(base_mv)
    keys = tuple(var['keys'])
    return MultiVector.fromkeysvalues(alg, keys, [B.get(k, 0) for k in keys])


def run_case(desc, V):
    if desc['kind'] == 'registered':
        from ..kapi import make_alg
        return _registered(desc, V, make_alg(desc['cfg']))
    if desc['kind'] == 'method':
        return twice_on_wrapper(desc['cfg'], lambda alg: _method(desc, V, alg))
    return twice_on_wrapper(desc['cfg'], lambda alg: _body(desc, V, alg))


METHODS = {
    'dual': 'x.dual()', 'undual': 'x.undual()', 'dual-hodge': "x.dual(kind='hodge')", 'undual-hodge': "x.undual(kind='hodge')",
    'norm': 'x.norm()', 'normalized': 'x.normalized()', 'pow2': 'x ** 2', 'pow3': 'x ** 3', 'pow0': 'x ** 0', 'pow-1': 'x ** -1', 'pow-2': 'x ** -2',
    'grade1': 'x.grade(1)', 'grade02': 'x.grade(0, 2)', 'grade-all': 'x.grade(*x.grades)', 'map': 'x.map(lambda v: 3 * v)', 'map-kv': 'x.map(lambda k, v: (k + 1) * v)',
    'filter-kv': 'x.filter(lambda k, v: k % 2 == 1)', 'asfullmv': 'x.asfullmv()', 'full-binary': 'x.asfullmv(canonical=False)', 'conj-sandwich': 'x * x.conjugate() * ~x',
    'number-div': '3 / x', 'div-number': 'x / 3', 'rsub': '2 - x',
}


def _method(desc, V, alg):
    from ..core import Fail
    f = eval('lambda x: ' + METHODS[desc['op']])
    op = desc['op']
    a = mv(alg, V, 'a', desc['ka'])
    claims = []

    def call(x):
        try:
            return f(x), None
        except ZeroDivisionError:
            return None, 'ZeroDivisionError'
        except sym.ValueBranch:
            raise
        except Exception as e:  # noqa
            return None, type(e).__name__
    base, berr = call(a)
    if op in ('norm', 'normalized') and V.symbolic and sym.cur().assumptions:
        import z3
        s_ = z3.Solver(); s_.set('timeout', 20000); s_.add(*sym.cur().assumptions)
        if s_.check() == z3.unsat:
            del sym.cur().assumptions[:]
            return [Eq('outside-real-domain', 1, 1)]
    for i, var in enumerate(desc['va']):
        av = _variant_mv(alg, a, var)
        claims += eq_claims(f'variant-same-element[{i}]', coeffs(av), coeffs(a))
        r, rerr = call(av)
        if berr or rerr:
            if (berr is None) != (rerr is None) and 'ZeroDivisionError' not in (berr, rerr):
                claims.append(Fail(f'{op}:{var["how"]}:raise-mismatch', f'{METHODS[op]}: base layout {"raised " + berr if berr else "returned"}, variant {var["how"]} {"raised " + rerr if rerr else "returned"}',
                                   fkey=f'method|{op}|raise-mismatch'))
            continue
        claims += mv_eq_claims(f'{op}:{var["how"]}[{i}]', r, coeffs(base), fkey=f'method|{op}|{var["how"]}')
    if op in ('norm', 'normalized') and V.symbolic and sym.cur().assumptions:
        # e.g. a blade of negative square: the norm is real only for the zero element, and the variants' own
        # side conditions (non-zero norm) then contradict it -- outside the real domain, nothing to prove
        import z3
        s_ = z3.Solver(); s_.set('timeout', 20000); s_.add(*sym.cur().assumptions)
        if s_.check() == z3.unsat:
            del sym.cur().assumptions[:]
            return [Eq('outside-real-domain', 1, 1)]
    claims.append(Eq('reached', 1, 1))
    return claims


REG_SRC = {
    'grade12': ('def reg_grade12(x):\n    return x.grade(1, 2)\n', 1),
    'grade0d': ('def reg_grade02(x):\n    return x.grade((0, 2)) + x.grade(1)\n', 1),
    'rev-gp': ('def reg_revgp(x, y):\n    return ~x * y\n', 2),
    'sum-op': ('def reg_sumop(x, y):\n    return (x + y) ^ y.grade(1)\n', 2),
    'sw': ('def reg_sw(x, y):\n    return x >> y\n', 2),
}


def _registered(desc, V, alg):
    """a compiled registered function applied to storage variants of the same elements."""
    src, nargs = REG_SRC[desc['op']]
    ns = {}
    exec(src, ns)
    f = [v for k, v in ns.items() if k.startswith('reg_')][0]
    rf = alg.register(f)
    a = mv(alg, V, 'a', desc['ka'])
    args0 = [a]
    if nargs == 2:
        b = mv(alg, V, 'b', desc['kb'])
        args0.append(b)
    want = coeffs(f(*args0))          # plain Python function on the base layout
    claims = mv_eq_claims(f'registered-base', rf(*args0), want, fkey=f'registered|{desc["op"]}|base')
    for i, var in enumerate(desc['va']):
        av = _variant_mv(alg, a, var)
        args = [av] + args0[1:]
        claims += mv_eq_claims(f'registered:{var["how"]}[{i}]', rf(*args), want, fkey=f'registered|{desc["op"]}|{var["how"]}')
    if nargs == 2:
        for i, var in enumerate(desc['vb']):
            bv_ = _variant_mv(alg, args0[1], var)
            claims += mv_eq_claims(f'registered-b:{var["how"]}[{i}]', rf(a, bv_), want, fkey=f'registered|{desc["op"]}|{var["how"]}')
    # and again, after every variant has been compiled
    claims += mv_eq_claims(f'registered-base-again', rf(*args0), want, fkey=f'registered|{desc["op"]}|base-again')
    return claims


def _body(desc, V, alg):
    op = desc['op']
    a = mv(alg, V, 'a', desc['ka'])
    claims = []
    if op == 'sqrt' and V.symbolic:
        sym.cur().assume(a.values()[0].t > 0, 'scalar part > 0 (sqrt domain)')
    if desc['kind'] == 'unary':
        try:
            base = ops.call_unary(op, a, 'method')
        except ZeroDivisionError:
            base = None
        for i, var in enumerate(desc['va']):
            av = _variant_mv(alg, a, var)
            # the variant denotes the same element
            claims += eq_claims(f'variant-same-element[{i}]', coeffs(av), coeffs(a))
            try:
                r = ops.call_unary(op, av, 'method')
            except ZeroDivisionError:
                r = None
            if base is None or r is None:
                # a padded variant may turn a generation-time raise into a run-time one and vice versa: both are 'raises'
                if (base is None) != (r is None):
                    claims.append(Note(f'{op}', f'base {"raised" if base is None else "returned"}, variant {var["how"]} {"raised" if r is None else "returned"} ZeroDivisionError'))
                continue
            claims += mv_eq_claims(f'{op}:{var["how"]}[{i}]', r, coeffs(base), fkey=f'{desc["kind"]}|{op}|{var["how"]}')
        claims.append(Eq('reached', 1, 1))
        return claims
    b = mv(alg, V, 'b', desc['kb'])
    try:
        base = ops.call_binary(op, a, b, 'method')
    except ZeroDivisionError:
        base = None
    pairs = [(va, None) for va in desc['va']] + [(None, vb) for vb in desc['vb']] + [(desc['va'][0], desc['vb'][-1])]
    for i, (va, vb) in enumerate(pairs):
        av = _variant_mv(alg, a, va) if va else a
        bv_ = _variant_mv(alg, b, vb) if vb else b
        try:
            r = ops.call_binary(op, av, bv_, 'method')
        except ZeroDivisionError:
            r = None
        if base is None or r is None:
            continue
        how = f'{va["how"] if va else "-"}/{vb["how"] if vb else "-"}'
        claims += mv_eq_claims(f'{op}:{how}[{i}]', r, coeffs(base), fkey=f'{desc["kind"]}|{op}|{how}')
    claims.append(Eq('reached', 1, 1))
    return claims
