"""
C06 -- sandwich, projection and squared norm equal their defining compositions.

Engine A: a >> b, a @ b and a.normsq() are run on solver-term coefficients (these operators are
generated through kingdon's RationalPolynomial class, OperatorDict-level pre-simplification
and lambdify+CSE, so this is the end-to-end check of that pipeline); one query per case
proves, for all coefficient values, equality with a*b*~a, (a|b)*~b and a*~a evaluated with
kingdon's elementary operators on the SAME operands, and with the reference model.  Blades
missing from the generated result must have an identically-zero right-hand side (the
pre-simplification may only drop identically-zero blades).
"""
from __future__ import annotations

import random

from ..core import Eq, Fail, Note
from .. import pat, ops
from .. import coexist
from ..kapi import get_alg, mv, coeffs, mv_eq_claims, eq_claims, kmap, twice_on_wrapper

PROP = 'C06'
LEVEL = 'translation_validation'
ENGINES = ['A']
FUNCTIONS = ['codegen_sw', 'codegen_proj', 'codegen_normsq', 'MultiVector.__rshift__/__rrshift__/__matmul__/__rmatmul__ (number, list, tuple, callable operands)', 'Polynomial/RationalPolynomial arithmetic (at generation time)',
             'do_codegen (canonical re-sorting, getattr by blade name)', 'lambdify + sympy cse', 'KingdonPrinter', 'tosympy',
             'generated sw_/proj_/normsq_ functions']
ASSUMPTIONS = ['coefficients are reals; patterns/configurations enumerated, values symbolic']
BOUNDS = {'quick': 'all (p,q,r) d<=3: d<=2 sampled ordered patterns (incl. permuted), d=3 grade unions, single blades, random sparse; d=4 systematic grade-block pairs (parity-pure / one- and two-grade blocks x every grade) + sparse; options cse=False / sympy symbols / wrapper (second pass) on a slice; reflected operands (number, list, tuple, callable on the left); null-blade conjugators in algebras with r >= 2; twin algebras; graded mode over degenerate metrics (whole-grade operands, 5 signatures)',
          'thorough': 'd<=2 all ordered pattern pairs for three signatures, d=3 5k subset pairs, d=4 all (p,q,r) sparse and five signatures of grade blocks, d=5 sparse'}
OUTSIDE = ['d > 5', 'dense operands in d >= 5 (code generation time)', 'floating-point rounding']
OPTS = {'rlimit': 200_000_000, 'canary_every': 15}


def cases(tier, seed):
    rng = random.Random(seed * 7919 + 6)
    out = []

    def add(cfg, ka, kb):
        out.append(dict(kind='swproj', cfg=cfg, ka=list(ka), kb=list(kb)))

    for d in (0, 1, 2):
        E = pat.EXH(d)
        for ci, (p, q, r) in enumerate(pat.pqr_all(d)):
            cfg = dict(p=p, q=q, r=r)
            pairs = [(x, y) for x in E for y in E]
            if d == 2:
                if tier == 'thorough' and ci < 3:
                    pass
                else:
                    pairs = rng.sample(pairs, 160 if tier == 'quick' else 800)
            for x, y in pairs:
                add(cfg, x, y)
    S3, G3, O3 = pat.SUB(3), pat.GRD(3), pat.ONE(3)
    for (p, q, r) in pat.pqr_all(3):
        cfg = dict(p=p, q=q, r=r)
        pairs = [(rng.choice(G3), rng.choice(G3)) for _ in range(25)]
        pairs += [(rng.choice(O3), rng.choice(O3)) for _ in range(12)]
        R = pat.RND(3, 30, rng, max_len=6)
        pairs += [(R[i], R[-1 - i]) for i in range(15)]
        pairs += [(rng.choice(S3), rng.choice(S3)) for _ in range(10 if tier == 'quick' else 5000 // 10)]
        for x, y in pairs:
            add(cfg, x, y)
    add(dict(p=3), pat.FULL(3)[0], pat.FULL(3)[1])
    add(dict(name='2DPGA'), pat.FULL(3)[1], pat.FULL(3)[0])
    cfg4 = [dict(p=3, r=1), dict(p=1, q=3), dict(name='3DPGA')] if tier == 'quick' else \
        [dict(p=p, q=q, r=r) for p, q, r in pat.pqr_all(4)] + [dict(name='3DPGA')]
    for cfg in cfg4:
        G = pat.GRD(4, max_grades=1)
        pairs = [(rng.choice(G), rng.choice(G)) for _ in range(6)]
        R = pat.RND(4, 16 if tier == 'quick' else 60, rng, max_len=5)
        pairs += [(R[2 * i], R[2 * i + 1]) for i in range(len(R) // 2)]
        for x, y in pairs:
            add(cfg, x, y)
    # d = 4 systematically: parity-pure / single-grade / two-grade blocks against every single grade
    order4 = pat.canon_order(4)
    g4 = lambda gs: [k for k in order4 if bin(k).count('1') in gs]
    blocks = [(0,), (1,), (2,), (3,), (4,), (0, 2), (2, 4), (0, 4), (1, 3), (0, 2, 4)]
    for cfg in ([dict(p=4), dict(p=3, r=1)] if tier == 'quick' else [dict(p=4), dict(p=3, r=1), dict(p=2, q=2), dict(p=1, q=3), dict(p=3, q=1)]):
        for bx in blocks:
            for gy in range(5):
                if len(g4(bx)) * len(g4((gy,))) > 30 and tier == 'quick' and cfg != dict(p=4):
                    continue
                add(cfg, g4(bx), g4((gy,)))
        for gx in range(5):
            for by in blocks[5:]:
                add(cfg, g4((gx,)), g4(by))
    # even rotor on vector in 3DPGA: the documented use
    ev = [k for k in pat.canon_order(4, 0) if bin(k).count('1') % 2 == 0]
    vec = [k for k in pat.canon_order(4, 0) if bin(k).count('1') == 1]
    add(dict(p=3, r=1), ev, vec)
    if tier == 'thorough':
        for cfg in (dict(p=4, q=1), dict(name='STAP')):
            R = pat.RND(5, 40, rng, max_len=4)
            for i in range(20):
                add(cfg, R[2 * i], R[2 * i + 1])
    # degenerate metrics with SEVERAL null generators: conjugators / operands made of null blades only (each stored blade
    # squares to 0, yet products of different ones need not vanish), mixed with ordinary ones
    for cfg in (dict(p=2, r=2), dict(p=1, q=1, r=2), dict(p=1, r=3), dict(r=3), dict(p=1, r=2), dict(p=2, q=1, r=2), dict(p=3, r=1)):
        dd = sum(cfg.values())
        p_, q_, r_ = cfg.get('p', 0), cfg.get('q', 0), cfg.get('r', 0)
        null_bits = [i for i in range(dd) if i >= p_ + q_] if r_ != 1 else [0]      # default layouts: nulls last (first when r == 1)
        nullblades = [k for k in range(1, 2 ** dd) if any(k >> i & 1 for i in null_bits)]
        for _ in range(10 if tier == 'quick' else 60):
            ka = rng.sample(nullblades, min(len(nullblades), rng.choice((2, 2, 3))))
            kb = list(pat.random_pattern(rng, dd, max_len=3, allow_empty=False))
            add(cfg, ka, kb)
            if rng.random() < 0.5:
                add(cfg, kb, ka)
    # generator names that are hex LETTERS (ea, eb, eab ...): symbol names of code generation then contain letters only
    for cfg in (dict(p=2, start_index=10), dict(p=1, q=1, start_index=11), dict(p=2, r=1, start_index=10), dict(p=3, start_index=12)):
        dd = sum(v for k, v in cfg.items() if k in 'pqr')
        P = pat.EXH(2) if dd == 2 else pat.RND(3, 40, rng, max_len=4)
        for _ in range(25 if tier == 'quick' else 150):
            add(cfg, rng.choice(P), rng.choice(P))
    # configuration fuzz over all construction axes
    for i in range(100 if tier == 'quick' else 1000):
        cfg, dd = pat.random_cfg(rng, d=rng.choice((1, 2, 2, 3, 3, 4)))
        add(cfg, pat.random_pattern(rng, dd, max_len=4 if dd >= 3 else 4), pat.random_pattern(rng, dd, max_len=4))
    # operands that are not multivectors on the LEFT of >> and @ (reflected dunders): plain number, list, tuple, callable
    for cfg in (dict(p=2), dict(p=1, q=1), dict(p=2, r=1), dict(p=3)):
        dd = sum(cfg.values())
        for _ in range(6 if tier == 'quick' else 40):
            out.append(dict(kind='reflected', cfg=cfg, ka=list(pat.random_pattern(rng, dd, max_len=3, allow_empty=False)),
                            kb=list(pat.random_pattern(rng, dd, max_len=3, allow_empty=False))))
    # option slices
    for opt in (dict(cse=False), dict(symbolcls='sympy'), dict(wrapper='identity')):
        for base in (dict(p=2), dict(p=1, q=1), dict(p=2, r=1)):
            d = sum(base.values())
            P = pat.EXH(2) if d == 2 else pat.RND(3, 30, rng, max_len=5)
            for _ in range(12 if tier == 'quick' else 60):
                add(dict(base, **opt), rng.choice(P), rng.choice(P))
    # graded mode (operands hold whole grades) in degenerate metrics with non-null directions: grades of the intermediate
    # products are then partly identically zero
    for base in (dict(p=2, r=1), dict(p=1, q=1, r=1), dict(p=1, r=1), dict(p=3, r=1), dict(p=2, r=2)):
        d = sum(base.values())
        import itertools as _it
        # (graded mode wants the blades of a grade in canonical order: lexicographic in the generator indices)
        G = [[sum(1 << i for i in c) for c in _it.combinations(range(d), g)] for g in range(d + 1)]
        unions = G + [G[0] + G[2], G[1] + G[2]] + ([G[1] + G[3]] if d >= 3 else [])
        pairs = [(a_, b_) for a_ in unions for b_ in unions if len(a_) * len(b_) <= 40]
        for a_, b_ in (pairs if (tier != 'quick' or d <= 3) else rng.sample(pairs, 10)):
            add(dict(base, graded=True), a_, b_)
    # algebras coexisting in one process (shared blade names, different numbering / metric / options)
    out += coexist.cases(tier, seed, 306, n_quick=8)
    return out


def _reflected(desc, V):
    from kingdon.multivector import MultiVector
    alg = get_alg(desc['cfg'])
    a = mv(alg, V, 'a', desc['ka'])
    b = mv(alg, V, 'b', desc['kb'])
    s = V.var('s')
    S = MultiVector.fromkeysvalues(alg, (0,), [s])
    claims = []
    claims += mv_eq_claims('s>>b', s >> b, coeffs(S * b * ~S))
    claims += mv_eq_claims('s@b', s @ b, coeffs((S | b) * ~b))
    claims += mv_eq_claims('b>>s', b >> s, coeffs(b * S * ~b))
    claims += mv_eq_claims('b@s', b @ s, coeffs((b | S) * ~S))
    want_sw, want_pr = coeffs(a * b * ~a), coeffs((a | b) * ~b)
    for label, left in (('list', [a, S]), ('tuple', (a, S))):
        r = left >> b
        if type(r) is not type(left) or len(r) != 2:
            claims.append(Fail(f'{label}>>b', f'{label} >> b returned {type(r).__name__}'))
        else:
            claims += mv_eq_claims(f'{label}>>b[0]', r[0], want_sw)
            claims += mv_eq_claims(f'{label}>>b[1]', r[1], coeffs(S * b * ~S))
        r = left @ b
        if type(r) is not type(left) or len(r) != 2:
            claims.append(Fail(f'{label}@b', f'{label} @ b returned {type(r).__name__}'))
        else:
            claims += mv_eq_claims(f'{label}@b[0]', r[0], want_pr)
            claims += mv_eq_claims(f'{label}@b[1]', r[1], coeffs((S | b) * ~b))
        r = a >> [b, S] if label == 'list' else a >> (b, S)
        claims += mv_eq_claims(f'a>>{label}[0]', r[0], want_sw)
        claims += mv_eq_claims(f'a>>{label}[1]', r[1], coeffs(a * S * ~a))
        r = a @ [b, S] if label == 'list' else a @ (b, S)
        claims += mv_eq_claims(f'a@{label}[0]', r[0], want_pr)
        claims += mv_eq_claims(f'a@{label}[1]', r[1], coeffs((a | S) * ~S))
    f = lambda: a
    claims += mv_eq_claims('callable>>b', f >> b, want_sw)
    claims += mv_eq_claims('callable@b', f @ b, want_pr)
    g = lambda: b
    claims += mv_eq_claims('a>>callable', a >> g, want_sw)
    claims += mv_eq_claims('a@callable', a @ g, want_pr)
    return claims


def run_case(desc, V):
    if desc['kind'] == 'coexist':
        return coexist.run(desc, V, binary=('sw', 'proj'), unary=('normsq',))
    if desc['kind'] == 'reflected':
        return _reflected(desc, V)
    return twice_on_wrapper(desc['cfg'], lambda alg: _body(desc, V, alg))


def _body(desc, V, alg):
    km = kmap(alg)
    a = mv(alg, V, 'a', desc['ka'])
    b = mv(alg, V, 'b', desc['kb'])
    A, B = coeffs(a), coeffs(b)
    claims = []
    R = km.ref
    ra, rb = km.to_ref(A), km.to_ref(B)
    sw = a >> b
    claims += mv_eq_claims('sw=a*b*~a', sw, coeffs(a * b * ~a))
    claims += mv_eq_claims('sw=ref', sw, km.from_ref(R.sw(ra, rb)))
    pr = a @ b
    claims += mv_eq_claims('proj=(a|b)*~b', pr, coeffs((a | b) * ~b))
    claims += mv_eq_claims('proj=ref', pr, km.from_ref(R.proj(ra, rb)))
    ns = a.normsq()
    claims += mv_eq_claims('normsq=a*~a', ns, coeffs(a * ~a))
    claims += mv_eq_claims('normsq=ref', ns, km.from_ref(R.normsq(ra)))
    claims += mv_eq_claims('sw-method', a.sw(b), coeffs(sw))
    claims += mv_eq_claims('proj-alg', alg.proj(a, b), coeffs(pr))
    return claims
