"""
C20 -- graph widget payload reflects the multivectors it is given.

The real GraphWidget is instantiated offline on subject trees over {colour ints, strings,
multivectors with SYMBOLIC label coefficients -- sparse, permuted keys, dense canonical, dense
binary layout, array-valued (lists of object arrays), zero-argument callables, nested lists and
tuples}.  A transcription of graph.js's toElement/decode (placement through key2idx when keys are
sent, canonical order otherwise, DataView -> Float64Array for bytes) decodes ``subjects``,
``options['camera']`` and ``draggable_points``; ONE query per case proves that the depth-first
sequence of decoded elements carries, on every blade, exactly getattr(mv, blade) of the
corresponding source multivector (array-valued ones element by element), for all label values;
signature, cayley and key2idx are compared with the reference algebra.
Drag updates (fork mode: the widget compares old and new values): draggable_points is assigned a
payload of fresh symbolic values in the front end's format; on every feasible path the ORIGINAL
multivector objects must hold exactly the new coefficients on their stored blades, and callable
subjects must have been re-evaluated (their decoded value = the callable on the updated operands).
ndarray-backed multivectors are serialised with tobytes(): solver terms cannot travel through
that, so they are checked on concrete float64 / int64 contents (sampling, stated as such).
"""
from __future__ import annotations

import random
import warnings

import numpy as np

from ..core import Eq, Fail, Note
from .. import pat, sym
from ..kapi import make_alg, mv, coeffs, kmap

PROP = 'C20'
LEVEL = 'other'
ENGINES = ['A', 'F']
FUNCTIONS = ['graph.encode', 'graph.walker', 'GraphWidget.get_subjects/get_draggable_points/get_draggable_points_idxs/get_key2idx/get_signature/get_cayley',
             'GraphWidget._valid_options (camera)', 'GraphWidget._observe_draggable_points', 'GraphWidget.inplacereplace', 'Algebra.graph', 'MultiVector.itermv']
ASSUMPTIONS = ['the decoder is a Python transcription of graph.js toElement/decode (the JavaScript and ganja.js themselves are outside)',
               'labels are reals; scenes are enumerated/sampled', 'ndarray-backed multivectors: concrete contents only']
BOUNDS = {'quick': 'default-basis algebras d<=4 (incl. 2-D/3-D PGA), 150 seeded subject trees of depth <=3, 60 drag scenes with <=2 draggable points and <=3 updates; graph.js index contract (idxs.map(i => canvas.value[i])) on scenes and drags with array-valued subjects before the points; camera through a callable; clouds with a constant coefficient; every fourth drag scene in the single graph-function form with items derived in the function body',
          'thorough': '1500 trees, 400 drag scenes'}
OUTSIDE = ['graph.js / ganja.js themselves', 'custom bases (ganja orders blades its own way)', 'solver terms inside ndarray-backed multivectors (tobytes)']
LABEL_MOVEMENT = True
RULE = ('cases are enumerated/seeded deterministically; a case is non-trivial when it moved at least one symbolic label through the real code '
        '(data-movement identities are mostly decided by syntactic identity of the solver terms, the rest by a z3 query)')
OPTS = {'rlimit': 100_000_000, 'canary_every': 10, 'max_paths': 600, 'max_depth': 200, 'case_budget_s': 180}
EXPLANATION = __doc__
CHUNKS_PER_WORKER = 8


def cases(tier, seed):
    rng = random.Random(seed * 7919 + 20)
    out = []
    cfgs = [dict(p=2), dict(p=2, r=1), dict(p=3), dict(p=3, r=1), dict(p=1, q=1), dict(p=4)]
    for i in range(150 if tier == 'quick' else 8000):
        out.append(dict(kind='scene', cfg=rng.choice(cfgs), sseed=rng.randrange(10 ** 9), depth=rng.choice((1, 2, 3))))
    for cfg in cfgs:
        out.append(dict(kind='meta', cfg=cfg))
        out.append(dict(kind='native', cfg=cfg, dtype='float64'))
        out.append(dict(kind='native', cfg=cfg, dtype='int64'))
        out.append(dict(kind='native', cfg=cfg, dtype='float32'))
        out.append(dict(kind='native', cfg=cfg, dtype='int8'))
        out.append(dict(kind='mixed-array', cfg=cfg, order='scalar-first'))
        out.append(dict(kind='mixed-array', cfg=cfg, order='array-first'))
        out.append(dict(kind='layouts', cfg=cfg))
    for i in range(60 if tier == 'quick' else 3000):
        out.append(dict(kind='drag', cfg=rng.choice(cfgs[:4] + [dict(p=3, r=1), dict(p=3)]), sseed=rng.randrange(10 ** 9),
                        updates=rng.choice((1, 2, 2, 3)), fork=True, graphfunc=(i % 4 == 3)))
    return out


# --------------------------------------------------------------------------- graph.js transcription

def to_element(o, key2idx):
    vals = o['mv']
    if isinstance(vals, (bytes, bytearray, memoryview)):
        vals = list(np.frombuffer(bytes(vals), dtype=np.float64))          # DataView -> new Float64Array(buffer)
    if 'keys' in o:
        out = [0] * len(key2idx)
        for j, k in enumerate(o['keys']):
            out[key2idx[k]] = vals[j]
        return ('element', out)
    return ('element', list(vals))


def decode(x, key2idx):
    if isinstance(x, dict) and 'mv' in x:
        return to_element(x, key2idx)
    if isinstance(x, (list, tuple)):
        return [decode(v, key2idx) for v in x]
    return x


def leaves(x):
    """depth-first sequence of leaves (elements, colours, strings) of a decoded structure."""
    if isinstance(x, tuple) and len(x) == 2 and x[0] == 'element':
        yield x
    elif isinstance(x, (list, tuple)):
        for v in x:
            yield from leaves(v)
    else:
        yield x


# --------------------------------------------------------------------------- expectation (from the property's wording)

def expected_leaves(o, alg):
    from kingdon.multivector import MultiVector
    if isinstance(o, MultiVector):
        if len(o.shape) > 1:
            for e in o.itermv():
                yield from expected_leaves(e, alg)
        else:
            yield ('element', [getattr(o, name) for name in alg.canon2bin])
    elif isinstance(o, (list, tuple)):
        for v in o:
            yield from expected_leaves(v, alg)
    elif callable(o):
        yield from expected_leaves(o(), alg)
    else:
        yield o


def _cmp_leaves(tag, got, want, fkey):
    claims = []
    got, want = list(got), list(want)
    if len(got) != len(want):
        return [Fail(f'{tag}:count', f'{len(got)} decoded leaves, {len(want)} expected', fkey)]
    for i, (g, w) in enumerate(zip(got, want)):
        ge = isinstance(g, tuple) and len(g) == 2 and g[0] == 'element'
        we = isinstance(w, tuple) and len(w) == 2 and w[0] == 'element'
        if ge != we:
            claims.append(Fail(f'{tag}:kind[{i}]', f'leaf {i}: decoded {type(g).__name__}, expected {type(w).__name__}', fkey))
            continue
        if not ge:
            if g != w:
                claims.append(Fail(f'{tag}:leaf[{i}]', f'leaf {i}: {g!r} != {w!r}', fkey))
            continue
        if len(g[1]) != len(w[1]):
            claims.append(Fail(f'{tag}:len[{i}]', f'element {i}: {len(g[1])} coefficients, expected {len(w[1])}', fkey))
            continue
        for j, (a, b) in enumerate(zip(g[1], w[1])):
            claims.append(Eq(f'{tag}[{i},{j}]', a, b, fkey))
    return claims


# --------------------------------------------------------------------------- scene generation

def _mk_mv(alg, V, rng, name, layout=None, keys=None):
    from kingdon.multivector import MultiVector
    d = alg.d
    order = list(alg.canon2bin.values())
    layout = layout or rng.choice(['sparse', 'sparse', 'permuted', 'dense-canonical', 'dense-binary', 'array', 'array-sparse', 'array2-sparse', 'empty'])
    if layout == 'empty':
        return MultiVector.fromkeysvalues(alg, (), [])
    if layout in ('sparse', 'permuted', 'array-sparse', 'array2-sparse'):
        ks = keys or rng.sample(range(2 ** d), rng.randint(1, min(4, 2 ** d)))
        ks = sorted(ks, key=order.index)
        if layout == 'permuted':
            rng.shuffle(ks)
    elif layout == 'dense-binary':
        ks = list(range(2 ** d))
    else:
        ks = order
    if layout.startswith('array'):
        shape = (rng.choice((2, 3)),) if not layout.startswith('array2') else (2, 3)
        vals = []
        for k in ks:
            a = np.empty(shape, dtype=object)
            for ix in np.ndindex(*shape):
                a[ix] = V.var(f'{name}_{k}_' + '_'.join(map(str, ix)))
            vals.append(a)
        return MultiVector.fromkeysvalues(alg, tuple(ks), vals)
    return MultiVector.fromkeysvalues(alg, tuple(ks), [V.var(f'{name}_{k}') for k in ks])


def _mk_tree(alg, V, rng, depth, counter):
    r = rng.random()
    if depth == 0 or r < 0.45:
        counter[0] += 1
        return _mk_mv(alg, V, rng, f'm{counter[0]}')
    if r < 0.55:
        return rng.choice([0xD0FFE1, 0x224488, 'label', 'A'])
    if r < 0.8:
        items = [_mk_tree(alg, V, rng, depth - 1, counter) for _ in range(rng.randint(1, 3))]
        return items if rng.random() < 0.6 else tuple(items)
    inner = _mk_tree(alg, V, rng, depth - 1, counter)
    if rng.random() < 0.3:
        return lambda: (lambda: inner)
    return lambda: inner


def run_case(desc, V):
    kind = desc['kind']
    with warnings.catch_warnings():
        warnings.simplefilter('ignore')
        if kind == 'scene':
            return _run_scene(desc, V)
        if kind == 'meta':
            return _run_meta(desc)
        if kind == 'native':
            return _run_native(desc)
        if kind == 'mixed-array':
            return _run_mixed_array(desc)
        if kind == 'layouts':
            return _run_layouts(desc, V)
        if kind == 'drag':
            return _run_drag(desc, V)
    raise ValueError(kind)


def _run_mixed_array(desc):
    """the usual way to write a point cloud: one constant coefficient next to array-valued ones (concrete values: plumbing)."""
    alg = make_alg(desc['cfg'])
    d = alg.d
    if d < 2:
        return [Eq('void', 1, 1)]
    order = list(alg.canon2bin.values())
    g1 = [k for k in order if bin(k).count('1') == 1]
    ks = g1[:3] if len(g1) >= 3 else g1[:2]
    arr = [np.array([1.0, 2.0, 3.0]) * (i + 1) for i in range(len(ks) - 1)]
    vals = ([7.0] + arr) if desc['order'] == 'scalar-first' else (arr + [7.0])
    cloud = alg.multivector(keys=tuple(ks), values=list(vals))
    fkey = f'mixed-array|{desc["order"]}'
    try:
        g = alg.graph(0xff0000, cloud, 'cloud')
        top = decode(g.subjects, dict(g.key2idx))
    except Exception as e:  # noqa
        return [Fail('mixed-array:raises', f'graph of a multivector with one constant and {len(arr)} array-valued coefficients raises {type(e).__name__}: {e}', fkey + '|raises'), Eq('reached', 1, 1)]
    els = [x for x in leaves(top) if isinstance(x, tuple) and len(x) == 2 and x[0] == 'element']
    claims = [Eq('reached', 1, 1)]
    if len(els) != 3:
        claims.append(Fail('mixed-array:count', f'{len(els)} elements in the payload, expected the 3 elements of the cloud', fkey))
        return claims
    for t, (_, co) in enumerate(els):
        for k, v in zip(ks, vals):
            want = float(v[t]) if hasattr(v, '__len__') else float(v)
            got = co[order.index(k)]
            try:
                ok = abs(float(got) - want) < 1e-12
            except Exception:
                ok = False
            if not ok:
                claims.append(Fail(f'mixed-array[{t},{k}]', f'element {t}, blade {k}: payload has {got!r}, expected {want}', fkey))
    return claims


def _run_scene(desc, V):
    alg = make_alg(desc['cfg'])
    rng = random.Random(desc['sseed'])
    counter = [0]
    subjects = [_mk_tree(alg, V, rng, desc['depth'], counter) for _ in range(rng.randint(1, 4))]
    subjects.insert(rng.randrange(len(subjects) + 1), 0x00AA88)
    cam = _mk_mv(alg, V, rng, 'cam', layout=rng.choice(['sparse', 'dense-canonical', 'permuted']))
    cam_arg = cam if rng.random() < 0.6 else (lambda: cam)          # options reach multivectors through zero-argument callables too
    wrap = rng.choice([None, None, 'tuple', 'list'])
    if wrap:
        # exactly ONE subject: a zero-argument function returning all subjects (ganja's animation idiom)
        seq = tuple(subjects) if wrap == 'tuple' else list(subjects)
        g = alg.graph(lambda: seq, camera=cam_arg, grid=1)
    else:
        g = alg.graph(*subjects, camera=cam_arg, grid=1)
    k2i = dict(g.key2idx)
    claims = _cmp_leaves('subjects', leaves(decode(g.subjects, k2i)), expected_leaves(subjects, alg), 'scene|subjects')
    if not isinstance(g.options['camera'], (dict, list, tuple, int, float, str)):
        claims.append(Fail('camera:type', f'options["camera"] is a {type(g.options["camera"]).__name__}, not an encoded multivector', 'scene|camera'))
    else:
        claims += _cmp_leaves('camera', leaves(decode(g.options['camera'], k2i)), expected_leaves(cam, alg), 'scene|camera')
    if g.options.get('grid') != 1:
        claims.append(Fail('options', 'other options were altered', 'scene|options'))
    # draggable points: first-level multivectors (PGA d=3,4: only grade d-1 points)
    from kingdon.multivector import MultiVector
    d = alg.d
    # (a multivector with array-valued coefficients is a cloud of elements, expanded in the payload: not one draggable point)
    pts = [s for s in subjects if isinstance(s, MultiVector) and len(s.shape) == 1]
    if alg.r == 1 and d in (3, 4):
        pts = [p for p in pts if p.grades == (d - 1,)]
    claims += _cmp_leaves('draggable', leaves(decode(g.draggable_points, k2i)), expected_leaves(pts, alg), 'scene|draggable_points')
    idxs = list(g.draggable_points_idxs)

    def n_top(s_):
        """number of top-level entries a subject contributes to the decoded subjects list."""
        while callable(s_) and not isinstance(s_, MultiVector):
            s_ = s_()
        if isinstance(s_, MultiVector) and len(s_.shape) > 1:
            n = 1
            for m in s_.shape[1:]:
                n *= m
            return n
        return 1
    want_idx, pos = [], 0
    for s_ in subjects:
        if any(s_ is p for p in pts):
            want_idx.append(pos)
        pos += n_top(s_)
    if idxs != want_idx:
        claims.append(Fail('draggable-idxs', f'{idxs} != {want_idx}', 'scene|draggable_points_idxs'))
    # the front end (graph.js) reports moved points as draggable_points_idxs.map(i => canvas.value[i]), canvas.value being the
    # DECODED top-level subjects list: on an untouched scene that report must be exactly the draggable points again
    top = decode(g.subjects, k2i)
    if any(i >= len(top) for i in idxs):
        claims.append(Fail('frontend-report:index', f'draggable_points_idxs {idxs} exceed the {len(top)} decoded subjects', 'scene|frontend-indexing'))
    else:
        reported = [top[i] for i in idxs]
        claims += _cmp_leaves('frontend-report', leaves(reported), leaves(decode(g.draggable_points, k2i)), 'scene|frontend-indexing')
    claims.append(Eq('reached', 1, 1))
    return claims


def _run_meta(desc):
    alg = make_alg(desc['cfg'])
    km = kmap(alg)
    g = alg.graph(0xff)
    claims = []
    order = list(alg.canon2bin.values())
    if dict(g.key2idx) != {k: i for i, k in enumerate(order)}:
        claims.append(Fail('key2idx', f'{dict(g.key2idx)}', 'meta|key2idx'))
    sig = [int(s) for s in alg.signature]
    if list(g.signature) != sig or not all(type(s) is int for s in g.signature):
        claims.append(Fail('signature', f'{g.signature} != {sig}', 'meta|signature'))
    names = list(alg.canon2bin)
    cay = g.cayley
    for a, ea in enumerate(names):
        for b, eb in enumerate(names):
            I, J = alg.canon2bin[ea], alg.canon2bin[eb]
            sI, mI = km.key2ref[I]; sJ, mJ = km.key2ref[J]; sK, mK = km.key2ref[I ^ J]
            sgn = km.ref.sign(mI, mJ) * sI * sJ * sK
            # row = left factor, column = right factor, entries like '-e12', '1', '0'
            blade = alg.bin2canon[I ^ J]
            blade = '1' if blade == 'e' else blade
            want = '0' if sgn == 0 else ('-' if sgn < 0 else '') + blade
            if cay[a][b] != want:
                claims.append(Fail(f'cayley[{ea},{eb}]', f'{cay[a][b]!r} != {want!r}', 'meta|cayley'))
    claims.append(Eq('reached', 1, 1))
    claims.append(Note('nontrivial', ''))
    return claims


def _run_native(desc):
    """sampling: ndarray-backed multivectors with concrete contents, decoded as the front end does."""
    alg = make_alg(desc['cfg'])
    d = alg.d
    order = list(alg.canon2bin.values())
    claims = []
    rs = np.random.RandomState(d)
    for ks in (order, order[:3], list(range(2 ** d))):
        vals = rs.randint(-4, 5, size=len(ks)).astype(desc['dtype'])
        x = alg.multivector(keys=tuple(ks), values=vals)
        g = alg.graph(x)
        got = list(leaves(decode(g.subjects, dict(g.key2idx))))
        want = [('element', [float(getattr(x, n)) for n in alg.canon2bin])]
        claims += _cmp_leaves(f'native-{desc["dtype"]}', got, want, f'native|{desc["dtype"]}')
    # array-valued, ndarray-backed, one and two array axes: expanded element by element in itermv order
    for shape in ((3,), (2, 3)):
        ks = order[1:4] if len(order) > 3 else order
        vals = rs.randint(-4, 5, size=(len(ks), *shape)).astype(desc['dtype'])
        x = alg.multivector(keys=tuple(ks), values=vals)
        g = alg.graph(x, [x])
        got = list(leaves(decode(g.subjects, dict(g.key2idx))))
        want = []
        for _ in range(2):
            for ix in np.ndindex(*shape):
                el = x[ix]
                want.append(('element', [float(getattr(el, n)) for n in alg.canon2bin]))
        claims += _cmp_leaves(f'native-array-{desc["dtype"]}', got, want, f'native|{desc["dtype"]}|array')
    claims.append(Note('nontrivial', ''))
    return claims


def _run_layouts(desc, V):
    """every storage layout of one element decodes to the same element."""
    alg = make_alg(desc['cfg'])
    rng = random.Random(7)
    claims = []
    for layout in ('sparse', 'permuted', 'dense-canonical', 'dense-binary', 'array', 'array-sparse', 'array2-sparse', 'empty'):
        x = _mk_mv(alg, V, rng, f'L{layout[:2]}{layout[-1]}', layout=layout)
        g = alg.graph(x, [x, (x,)], lambda: x)
        k2i = dict(g.key2idx)
        claims += _cmp_leaves(f'layout-{layout}', leaves(decode(g.subjects, k2i)), expected_leaves([x, [x, (x,)], lambda: x], alg), f'layouts|{layout}')
    return claims


class _Late:
    """a subjects list that is produced anew whenever it is looked at (graph-function form)."""
    def __init__(self, f):
        self.f = f

    def __iter__(self):
        return iter(self.f())


def _run_drag(desc, V):
    from kingdon.multivector import MultiVector
    alg = make_alg(desc['cfg'])
    rng = random.Random(desc['sseed'])
    d = alg.d
    order = list(alg.canon2bin.values())
    pga = alg.r == 1 and d in (3, 4)
    npts = rng.choice((1, 2))

    def point(name, layout):
        if pga:
            ks = [k for k in order if bin(k).count('1') == d - 1]
            if layout == 'permuted':
                rng.shuffle(ks)
            # a PGA point stores d blades: keep two of them symbolic, the others concrete (path count)
            return MultiVector.fromkeysvalues(alg, tuple(ks), [V.var(f'{name}_{k}') if i < 2 else i + 1 for i, k in enumerate(ks)])
        ks = {'sparse': sorted(rng.sample(range(2 ** d), 1 if npts == 2 else rng.randint(1, 2)), key=order.index),
              'permuted': rng.sample(range(2 ** d), 2),
              'dense-binary': list(range(2 ** d)), 'dense-canonical': order}[layout]
        if len(ks) > 4:
            # dense layouts: keep the number of symbolic comparisons small -- only some entries are labels
            vals = [V.var(f'{name}_{k}') if i in (1, len(ks) - 2) else (i % 3) for i, k in enumerate(ks)]
        else:
            vals = [V.var(f'{name}_{k}') for k in ks]
        return MultiVector.fromkeysvalues(alg, tuple(ks), vals)
    layouts = ['sparse', 'permuted'] if pga else ['sparse', 'permuted', 'dense-binary', 'dense-canonical']
    pts = [point(f'p{i}', rng.choice(layouts)) for i in range(npts)]
    empty = MultiVector.fromkeysvalues(alg, (), [])
    dep = (lambda: pts[0] ^ pts[-1]) if rng.random() < 0.5 else (lambda: [~pts[0], pts[-1].hodge()])
    subjects = [0xff, pts[0], 'a']
    cloud = None
    if rng.random() < 0.5:
        # a cloud (array-valued multivector, expanded element by element in the payload) BEFORE the draggable points,
        # given directly or through a callable: positions in the decoded list and in the argument list then differ
        import numpy as _np
        ck = [k for k in order if bin(k).count('1') == (d - 1 if pga else 1)][:2]
        cloud = alg.multivector(keys=tuple(ck), values=[_np.array([1.0 + i, 2.0 + i, 3.0 + i]) for i in range(len(ck))])
        subjects.insert(rng.choice((0, 1)), cloud if rng.random() < 0.5 else (lambda: cloud))
    if rng.random() < 0.5 and not pga:
        subjects.append(empty)
    subjects += pts[1:] + [dep, [pts[0]]]
    other = alg.multivector(keys=(0,), values=[V.var('o')])          # not a point in PGA (grade 0): must stay untouched
    subjects.append(other)
    if desc.get('graphfunc'):
        # the single graph-function form (documented for animations): the function is evaluated again for every payload, so
        # items its BODY derives from the points (not wrapped in callables of their own) follow a drag as well
        static = list(subjects)
        scene = lambda: static + [[pts[0] ^ pts[-1], ~pts[-1], 2 * pts[0]]]
        g = alg.graph(scene)
        subjects = _Late(scene)
    else:
        g = alg.graph(*subjects)
    k2i = dict(g.key2idx)
    idxs = list(g.draggable_points_idxs)
    # graph.js looks the points up in the DECODED subjects list (canvas.value[i]): owner of every top-level entry
    owner = []
    for s_ in subjects:
        v = s_
        while callable(v) and not isinstance(v, MultiVector):
            v = v()
        n = 1
        if isinstance(v, MultiVector) and len(v.shape) > 1:
            for m in v.shape[1:]:
                n *= m
        owner += [s_] * n
    claims = []
    if any(i >= len(owner) for i in idxs) or any(not (isinstance(owner[i], MultiVector) and len(owner[i].shape) == 1) for i in idxs):
        return [Fail('frontend-index', f'draggable_points_idxs {idxs} do not address single multivectors in the decoded subjects list', 'drag|frontend-indexing')]
    dragged = [owner[i] for i in idxs]
    want_pts = [p for p in pts if (not pga or True)]
    if len(dragged) != len([s_ for s_ in subjects if isinstance(s_, MultiVector) and len(s_.shape) == 1 and (not pga or s_.grades == (d - 1,))]):
        claims.append(Fail('frontend-index:count', f'{len(dragged)} draggable indices', 'drag|frontend-indexing'))
    cloud_before = [list(map(float, v)) for v in cloud.values()] if cloud is not None else None
    fresh_slot = order.index(dragged[0].keys()[0]) if dragged and len(dragged[0].keys()) else -1
    for u in range(desc['updates']):
        payload, newvals = [], []
        # which points the front end reports as moved in this update (at least one; the others keep their values)
        moved = [rng.random() < 0.6 for _ in dragged]
        if not any(moved):
            moved[0] = True
        if u == 1 and len(dragged) > 1:
            moved = [True] + [False] * (len(dragged) - 1)          # an earlier point moves, the last one does not
        for pi, p in enumerate(dragged):
            full = []
            for ci, k in enumerate(order):
                if k in p.keys() and not moved[pi]:
                    full.append(p.values()[list(p.keys()).index(k)])       # unmoved point: the front end reports its current values
                elif k in p.keys() and not isinstance(p.values()[list(p.keys()).index(k)], int):
                    cur_v = p.values()[list(p.keys()).index(k)]
                    if u == 0 and pi == 0 and ci == fresh_slot:
                        full.append(V.var(f'n{u}_{pi}_{k}'))          # one fully independent new value per scene
                    else:
                        # new value = old value + a slot-specific offset: provably different from the old
                        # one (no fork on the widget's old/new comparisons), and a write to a wrong slot
                        # is still visible for all values
                        full.append(cur_v + (ci + 2 + 10 * pi + 100 * u))
                elif k in p.keys():
                    full.append(p.values()[list(p.keys()).index(k)])       # unchanged concrete entry
                else:
                    full.append(0)
            payload.append({'mv': full})
            newvals.append(full)
        g.draggable_points = payload
        for pi, p in enumerate(dragged):
            for j, k in enumerate(p.keys()):
                claims.append(Eq(f'dragged[{u},{pi},{k}]', p.values()[j], newvals[pi][order.index(k)], 'drag|written-back'))
        claims += _cmp_leaves(f'subjects-after[{u}]', leaves(decode(g.subjects, k2i)), expected_leaves(list(subjects), alg), 'drag|subjects-reevaluated')
    # identity of the original objects and untouched non-draggables
    if any(a is not b for a, b in zip([owner[i] for i in idxs], dragged)):
        claims.append(Fail('identity', 'dragged subjects are no longer the original objects', 'drag|identity'))
    if cloud is not None and [list(map(float, v)) for v in cloud.values()] != cloud_before:
        claims.append(Fail('untouched-cloud', 'the coefficients of the array-valued subject changed although only points were moved', 'drag|untouched'))
    if tuple(empty.keys()) != () or tuple(other.keys()) != (0,):
        claims.append(Fail('untouched', 'a non-addressed multivector changed its keys', 'drag|untouched'))
    return claims
