"""
C13 -- algebra options change speed, never results.

Differential translation validation: the same solver-term operands are pushed through two
algebras that differ only in options (cse on/off, graded mode, codegen symbol class
RationalPolynomial vs sympy.Symbol, an identity / functools.wraps pass-through wrapper,
pretty_blade) and ONE query per case proves that every operator returns equal elements for all
coefficient values.  In graded mode additionally: every call that succeeds in default mode
succeeds, and every result stores complete grades.  Operand patterns are unions of complete
grades (valid in every mode).  The basis blades handed out by ``alg.blades`` (built differently
in graded mode) are compared across option settings as elements.
"""
from __future__ import annotations

import random

from ..core import Eq, Fail, Note
from .. import pat, ops, sym
from ..kapi import get_alg, make_alg, mv, coeffs, mv_eq_claims, eq_claims, kmap
from ..ref import popcount

PROP = 'C13'
LEVEL = 'translation_validation'
ENGINES = ['A']
FUNCTIONS = ['Algebra option fields (cse, graded, wrapper, codegen_symbolcls, pretty_blade)', 'do_codegen (cse / func_builder branch)',
             'OperatorDict.__post_init__ (symbol class override)', 'MultiVector.__new__ graded key check', 'BladeDict.__getitem__ (graded blades)',
             'codegen_sqrt (source text from str() of symbolic coefficients)', 'lambdify with/without cse', 'every codegen_* operator']
ASSUMPTIONS = ['coefficients are reals; denominators non-zero; sqrt inside its domain', 'operand patterns are unions of complete grades']
BOUNDS = {'quick': '(p,q,r) d<=3 (6 signatures); 9 option settings incl. three wrapper kinds (second pass after other operators were generated); 29 operators; grade-union patterns with <=2 grades; graded mode swept systematically (seed-independent); graded-chain kind (sympy coefficients, filter(), duals) over 6 signatures; the same operator on other patterns between the two wrapper passes',
          'thorough': 'all (p,q,r) d<=3 + three d=4; all grade unions'}
OUTSIDE = ['wrappers that are not semantics-preserving', 'd > 4']
OPTS = {'rlimit': 300_000_000, 'canary_every': 12}

OPTIONS = {
    'cse=False': dict(cse=False),
    'graded': dict(graded=True),
    'sympy-symbols': dict(symbolcls='sympy'),
    'wrapper=identity': dict(wrapper='identity'),
    'wrapper=wraps': dict(wrapper='wraps'),
    'wrapper=closure': dict(wrapper='closure'),
    'pretty_blade': dict(pretty_blade='x'),
    'cse=False+sympy': dict(cse=False, symbolcls='sympy'),
    'graded+cse=False': dict(graded=True, cse=False),
}
BIN = ['gp', 'op', 'ip', 'lc', 'rc', 'sp', 'cp', 'acp', 'rp', 'add', 'sub', 'sw', 'proj', 'div']
UN = ['neg', 'reverse', 'involute', 'conjugate', 'hodge', 'unhodge', 'polarity', 'unpolarity', 'normsq', 'inv',
      'outerexp', 'outersin', 'outercos', 'outertan', 'sqrt']


def cases(tier, seed):
    rng = random.Random(seed * 7919 + 13)
    out = []
    bases = [dict(p=2), dict(p=1, q=1), dict(p=1, r=1), dict(p=3), dict(p=2, r=1), dict(p=1, q=2)]
    if tier == 'thorough':
        bases = [dict(p=p, q=q, r=r) for d in (1, 2, 3) for p, q, r in pat.pqr_all(d)] + [dict(p=3, r=1), dict(p=4), dict(p=1, q=3)]
    d4 = [dict(p=4), dict(p=2, q=2)]          # d = 4: only the outer tangent slice below (quick), everything (thorough)
    out += _graded_sweep(tier)
    for base in bases:
        d = sum(base.values())
        G = [g for g in pat.GRD(d, max_grades=2 if tier == 'quick' else None) if g]
        for oname in OPTIONS:
            if 'graded' in oname:
                continue        # graded mode is swept systematically (seed-independent) by _graded_sweep
            out.append(dict(kind='blades', base=base, opt=oname))
            for op in BIN:
                n = 2 if tier == 'quick' else 5
                for _ in range(n):
                    ka, kb = rng.choice(G), rng.choice(G)
                    if d >= 3 and op in ('sw', 'proj', 'div') and (len(ka) + len(kb) > 8):
                        ka = rng.choice([g for g in G if len(g) <= 4]); kb = rng.choice([g for g in G if len(g) <= 4])
                    out.append(dict(kind='binary', base=base, opt=oname, op=op, ka=list(ka), kb=list(kb)))
            if d == 4 and oname in ('cse=False', 'sympy-symbols', 'cse=False+sympy', 'wrapper=closure'):
                biv = [k for k in pat.canon_order(4, 0 if base.get('r') == 1 else 1) if bin(k).count('1') == 2]
                for ka in (biv, biv[:3], [biv[0], biv[-1]]):
                    out.append(dict(kind='unary', base=base, opt=oname, op='outertan', ka=list(ka)))
            # inverse / division on every single-grade pattern (null blades, pseudoscalars: raise behaviour must agree too)
            for g in [g for g in pat.GRD(d, max_grades=1) if g]:
                out.append(dict(kind='unary', base=base, opt=oname, op='inv', ka=list(g)))
                out.append(dict(kind='binary', base=base, opt=oname, op='div', ka=list(G[0]), kb=list(g)))
            for op in UN:
                if op in ('polarity', 'unpolarity') and base.get('r'):
                    continue
                for _ in range(2 if tier == 'quick' else 4):
                    ka = rng.choice(G)
                    if op == 'sqrt':
                        ka = rng.choice([g for g in pat.GRD(d, max_grades=2) if g and g[0] == 0 and len({popcount(k) for k in g}) <= 2])
                    if op in ('inv', 'outertan') and d >= 3 and len(ka) > 4:
                        ka = rng.choice([g for g in G if len(g) <= 4])
                    if d >= 4 and op == 'outertan':
                        continue
                    out.append(dict(kind='unary', base=base, opt=oname, op=op, ka=list(ka)))
    if tier == 'quick':
        for base in d4:
            biv = [k for k in pat.canon_order(4) if bin(k).count('1') == 2]
            for oname in ('cse=False', 'sympy-symbols', 'cse=False+sympy', 'wrapper=closure'):
                for ka in (biv, biv[:3], [biv[0], biv[-1]]):
                    out.append(dict(kind='unary', base=base, opt=oname, op='outertan', ka=list(ka)))
    # graded mode with SYMPY coefficients (the zero filter) and user-level filter(): chains of operations
    for base in (dict(p=2), dict(p=3), dict(p=2, r=1), dict(p=1, r=1), dict(p=1, q=1, r=1), dict(p=3, r=1)):
        for chain in GRADED_CHAINS:
            if chain == 'sandwich' and sum(base.values()) > 3:
                continue
            out.append(dict(kind='graded-chain', base=base, chain=chain))
    return out


def _graded_sweep(tier):
    """
    Graded mode, seed-independent and systematic: every operator on every pair of grade-union
    patterns (d=2: all with <=2 grades; d=3: all single grades plus fixed mixed ones), so that the
    set of (operator, failure kind) combinations it can report on a given tree is deterministic.
    """
    out = []
    bases = [dict(p=2), dict(p=1, q=1), dict(p=1, r=1), dict(p=3), dict(p=2, r=1), dict(p=1, q=2)]
    if tier == 'thorough':
        bases += [dict(q=2), dict(r=2), dict(p=1, q=1, r=1), dict(q=3), dict(p=3, r=1)]
    for base in bases:
        d = sum(base.values())
        G = [g for g in pat.GRD(d, max_grades=2) if g]
        if d == 2:
            pairs = [(x, y) for x in G for y in G]
            singles = G
        else:
            one = [g for g in G if len({popcount(k) for k in g}) == 1]
            mixed = [g for g in G if len({popcount(k) for k in g}) == 2]
            pairs = [(x, y) for x in one for y in one] + [(mixed[i], one[i % len(one)]) for i in range(len(mixed))] \
                + [(one[i % len(one)], mixed[-1 - i]) for i in range(len(mixed))] + [(mixed[0], mixed[-1]), (mixed[2], mixed[3])]
            singles = G
            if d >= 4:
                pairs = [(x, y) for x in one for y in one]
                singles = one + mixed[:4]
        for oname in ('graded', 'graded+cse=False'):
            out.append(dict(kind='blades', base=base, opt=oname))
            for op in BIN:
                for x, y in pairs:
                    if op in ('sw', 'proj', 'div') and d >= 3 and len(x) + len(y) > 7:
                        continue
                    if oname != 'graded' and (len(x) + len(y)) % 2:
                        continue
                    out.append(dict(kind='binary', base=base, opt=oname, op=op, ka=list(x), kb=list(y)))
            for op in UN:
                if op in ('polarity', 'unpolarity') and base.get('r'):
                    continue
                for x in singles:
                    if op == 'sqrt' and not (x[0] == 0 and len({popcount(k) for k in x}) <= 2):
                        continue
                    if op in ('inv', 'outertan') and d >= 3 and len(x) > 4:
                        continue
                    if op == 'outertan' and d >= 4:
                        continue
                    out.append(dict(kind='unary', base=base, opt=oname, op=op, ka=list(x)))
    return out


GRADED_CHAINS = {
    'wedge-then-ops': "B = a ^ E1; r = [B ^ c, B | c, B.lc(c), B * c, B.cp(c), B + c]",
    'product-chain': "r = [((x_ * E1) * (y_ * E2)) * c, (a * c) * a, ~(a * c) * c]",
    'filter': "v = A.vector([0] + list(a.values())[1:]); r = [v.filter() * v.filter(), v.filter() + c.grade(1), v.filter().dual() if not A.r else v.filter().hodge()]",
    'duals': "v = A.vector([0] + list(a.values())[1:]); r = [v.hodge().unhodge(), v.dual().undual() if A.r <= 1 else v.hodge()]",
    'sandwich': "r = [(a * c) >> a, a @ (a ^ c), (a * c) / c]",
}


def _run_graded_chain(desc, V):
    """chains of operations with SYMPY coefficients in a graded algebra: every step succeeds, every result stores complete grades and
    evaluates (symbols replaced by solver terms) to what the default-mode algebra computes on those terms."""
    import sympy
    from .. import sy2z3
    from kingdon.multivector import MultiVector
    base = desc['base']
    G = make_alg(dict(base, graded=True))
    D = make_alg(base)
    d = G.d
    names_a = [f'a{i}' for i in range(d)]
    names_c = [f'c{i}' for i in range(2 ** d)]
    env = {n: V.var(n) for n in names_a + names_c + ['x_', 'y_']}
    claims = [Note('nontrivial', '')]

    def build(A, sym_):
        mk = (lambda n: sympy.Symbol(n)) if sym_ else (lambda n: env[n])
        a = A.vector([mk(n) for n in names_a])
        c = A.multivector([mk(n) for n in names_c])
        ns = dict(A=A, a=a, c=c, E1=A.blades[A.bin2canon[1]], E2=A.blades[A.bin2canon[2]] if d >= 2 else A.blades[A.bin2canon[1]], x_=mk('x_'), y_=mk('y_'))
        exec(GRADED_CHAINS[desc['chain']], ns)
        return ns['r']
    fkey = f'graded-chain|{desc["chain"]}'
    try:
        want = build(D, False)
    except ZeroDivisionError:
        return [Eq('void', 1, 1)]
    try:
        got = build(G, True)
    except ZeroDivisionError:
        return [Eq('void', 1, 1)]
    except Exception as e:  # noqa
        return [Fail('graded-chain:raises', f'{desc["chain"]} in graded mode with sympy coefficients raised {type(e).__name__}: {str(e)[:120]} (the default mode returns)', fkey=fkey + '|raises')]
    for i, (g, w) in enumerate(zip(got, want)):
        if not _complete_grades(G, g.keys()):
            claims.append(Fail(f'graded-chain[{i}]:incomplete', f'{desc["chain"]}: result {i} stores keys {tuple(g.keys())}: not complete grades', fkey=fkey + '|incomplete-grades'))
        gv = {k: sy2z3.to_value(v, env) for k, v in coeffs(g).items()}
        claims += eq_claims(f'graded-chain[{i}]', gv, coeffs(w), fkey=fkey + '|value')
    return claims


def _complete_grades(alg, keys):
    gs = tuple(sorted({popcount(k) for k in keys}))
    return set(keys) == set(alg.indices_for_grades[gs])


def run_case(desc, V):
    if desc['kind'] == 'graded-chain':
        return _run_graded_chain(desc, V)
    base_cfg = desc['base']
    opt_cfg = dict(base_cfg, **OPTIONS[desc['opt']])
    A0 = get_alg(base_cfg)
    if 'wrapper' not in opt_cfg:
        return _body(desc, V, A0, get_alg(opt_cfg))
    # with a wrapper the numeric path resolves functions by name: fresh algebra, a few other operators
    # generated in between, then a second pass
    A1 = make_alg(opt_cfg)
    claims = list(_body(desc, V, A0, A1))
    d = A1.d
    if d:
        u = A1.multivector(keys=(0, 1), values=[2, 3])
        wk = tuple(dict.fromkeys((1, 2 ** d - 1)))          # (one blade only in the 1-D algebra)
        w = A1.multivector(keys=wk, values=[5, 7][:len(wk)])
        (u * w) + (w ^ u) - (u | w)
        ~u
        # ... and the SAME operator with other patterns next to one unchanged operand pattern (generated functions whose
        # names do not tell all operand patterns apart would now be replaced)
        if desc['kind'] in ('binary', 'unary'):
            from kingdon.multivector import MultiVector
            alts = [(1,), (0,), (2 ** d - 1,), tuple(k for k in range(2 ** d) if bin(k).count('1') == 2)[:3] or (0, 1), tuple(dict.fromkeys((0, 1, 2 ** d - 1)))]
            fixed_a = MultiVector.fromkeysvalues(A1, tuple(desc['ka']), [3 + i for i in range(len(desc['ka']))])
            fixed_b = MultiVector.fromkeysvalues(A1, tuple(desc.get('kb') or desc['ka']), [2 + i for i in range(len(desc.get('kb') or desc['ka']))])
            for alt in alts:
                m = MultiVector.fromkeysvalues(A1, alt, [2 + 3 * i for i in range(len(alt))])
                for call in ((lambda: ops.call_binary(desc['op'], m, fixed_b, 'method')), (lambda: ops.call_binary(desc['op'], fixed_a, m, 'method'))) \
                        if desc['kind'] == 'binary' else ((lambda: ops.call_unary(desc['op'], m, 'method')),):
                    try:
                        call()
                    except Exception:  # noqa  (null / singular alternatives: only their side effect on the name space matters)
                        pass
    for c in _body(desc, V, A0, A1):
        if isinstance(c, (Eq, Fail)):
            c.label = 'recall:' + c.label
            c.fkey = 'recall|' + (c.fkey or c.label)
        claims.append(c)
    return claims


def _body(desc, V, A0, A1):
    opt_cfg = dict(desc['base'], **OPTIONS[desc['opt']])
    graded = bool(opt_cfg.get('graded'))
    oname = 'graded' if graded else desc['opt']
    claims = []
    if desc['kind'] == 'blades':
        for name in A0.canon2bin:
            b0, b1 = coeffs(A0.blades[name]), coeffs(A1.blades[name])
            claims += eq_claims(f'blade[{name}]', b1, b0, fkey=f'blades|{oname}')
        claims.append(Eq('reached', 1, 1))
        return claims
    from kingdon.multivector import MultiVector
    op = desc['op']
    a0 = mv(A0, V, 'a', desc['ka'])
    a1 = MultiVector.fromkeysvalues(A1, tuple(a0.keys()), list(a0.values()))
    if op == 'sqrt' and V.symbolic:
        sym.cur().assume(a0.values()[0].t > 0, 'scalar part > 0 (sqrt domain)')
    if desc['kind'] == 'binary':
        b0 = mv(A0, V, 'b', desc['kb'])
        b1 = MultiVector.fromkeysvalues(A1, tuple(b0.keys()), list(b0.values()))
        call0 = lambda: ops.call_binary(op, a0, b0, 'method')
        call1 = lambda: ops.call_binary(op, a1, b1, 'method')
    else:
        call0 = lambda: ops.call_unary(op, a0, 'method')
        call1 = lambda: ops.call_unary(op, a1, 'method')
    try:
        r0 = call0()
    except ZeroDivisionError:
        r0 = None
    try:
        r1 = call1()
    except ZeroDivisionError:
        r1 = 'zde'
    except sym.ValueBranch:
        raise
    except Exception as e:  # noqa
        if r0 is not None:
            return [Fail(f'{op}:raises', f'{op} with option {oname} raised {type(e).__name__}: {str(e)[:120]} for a call that succeeds by default',
                         fkey=f'{op}|{oname}|raises:{type(e).__name__}')]
        return [Eq('both-raise', 1, 1)]
    if r0 is None or r1 == 'zde':
        if (r0 is None) != (r1 == 'zde'):
            return [Fail(f'{op}:zde-mismatch', f'default {"raised" if r0 is None else "returned"}, {oname} {"raised" if r1 == "zde" else "returned"} ZeroDivisionError',
                         fkey=f'{op}|{oname}|zerodivision-mismatch')]
        return [Eq('both-raise', 1, 1)]
    claims += mv_eq_claims(f'{op}', r1, coeffs(r0), fkey=f'{op}|{oname}|value')
    if graded and not _complete_grades(A1, tuple(r1.keys())):
        claims.append(Fail(f'{op}:incomplete-grades', f'graded result stores keys {tuple(r1.keys())}', fkey=f'{op}|{oname}|incomplete-grades'))
    return claims
