"""
C16 -- array coefficients, sequences, callables and plain numbers broadcast right.

Engine A with object ndarrays (and lists of arrays) of solver-term labels:
 arrays     op(X, Y)[idx] == op(X[idx], Y[idx]) entry by entry for every operator and index
            expression (ints, negative ints, slices, tuples, Ellipsis) over trailing shapes
            (3,), (2,3); X[idx] = V (array and multivector right-hand sides) changes exactly the
            addressed entries of every coefficient (ALL entries compared before/after); itermv, shape.
 numbers    a SYMBOLIC plain number s on either side of every infix operator (all reflected dunder
            methods) equals the scalar multivector; concrete int/float/Fraction/numpy scalars too.
 sequences  [a, b] op m, m op (a, b), zero-argument callables (nested) on either side give the
            element-wise results WITH THE OPERAND ORDER KEPT -- operands are non-commuting symbolic
            multivectors so a swap is visible for all values.
Native-dtype numpy arrays cannot hold solver terms (their arithmetic is numpy's C code): they are
exercised on concrete sample values only, for shape/dtype plumbing -- sampling, stated as such.
"""
from __future__ import annotations

import operator
import random
from fractions import Fraction

import numpy as np

from ..core import Eq, Fail, Note
from .. import pat, ops, sym
from ..kapi import get_alg, make_alg, mv, coeffs, mv_eq_claims, eq_claims

PROP = 'C16'
LEVEL = 'translation_validation'
ENGINES = ['A']
FUNCTIONS = ['MultiVector.__getitem__/__setitem__/itermv/shape', 'reflected operator methods (__radd__, __rsub__, __rmul__, __rtruediv__, __rxor__, __ror__, __rand__, __rrshift__, __rmatmul__)',
             'OperatorDict._call_binary (callable unwrapping, list/tuple mapping, scalar wrapping)', 'generated functions on object arrays']
ASSUMPTIONS = ['array entries are reals held in object ndarrays / lists of object arrays', 'native numpy dtypes: concrete sampling only (plumbing)']
BOUNDS = {'quick': 'algebras R2, R1,1, 2D-PGA, R3; trailing shapes (3,), (2,3); 9 index forms; all 9 infix operators x both sides x {number, list, tuple, callable, nested}; assignment through multivectors with coefficients of different rank (multivector and number values); keepdims-shaped assignment values',
          'thorough': 'more operators/patterns per shape, 3DPGA'}
BOUNDS['quick'] += '; operands with different numbers of trailing axes ((n,2) against (2,), n = number of blades and n+1)'
OUTSIDE = ['element-wise arithmetic of native-dtype numpy arrays (numpy C code, trusted)', 'shapes beyond 2 trailing axes']
LABEL_MOVEMENT = True
RULE = ('cases are enumerated/seeded deterministically; a case is non-trivial when it moved at least one symbolic label through the real code '
        '(data-movement identities are mostly decided by syntactic identity of the solver terms, the rest by a z3 query)')
OPTS = {'rlimit': 200_000_000, 'canary_every': 10}
CHUNKS_PER_WORKER = 10

INFIX = {'*': operator.mul, '^': operator.xor, '|': operator.or_, '&': operator.and_, '>>': operator.rshift, '@': operator.matmul,
         '+': operator.add, '-': operator.sub, '/': operator.truediv}
INDEXES = ['0', '-1', '1', 'slice(0,2)', '(0,)', '(1,2)', '(slice(None),1)', '(Ellipsis,0)', '(-1,slice(1,3))', '[0, 1]', '[1, 0, 1]', '[True, False]',
           '[True, False, True]', '([0, 1], slice(0, 2))']
BIN = ['gp', 'op', 'ip', 'rp', 'sw', 'proj', 'add', 'sub', 'cp', 'lc', 'div']
UN = ['neg', 'reverse', 'involute', 'conjugate', 'hodge', 'normsq', 'inv', 'outerexp']


def cases(tier, seed):
    rng = random.Random(seed * 7919 + 16)
    out = []
    cfgs = [dict(p=2), dict(p=1, q=1), dict(p=2, r=1), dict(p=3)] + ([dict(name='3DPGA')] if tier == 'thorough' else [])
    for cfg in cfgs:
        d = 4 if cfg.get('name') else sum(cfg.values())
        P = [p for p in pat.RND(d, 30, rng, max_len=3, min_len=1)]
        for shape in ((3,), (2, 3)):
            for container in ('ndarray', 'list'):
                n = 3 if tier == 'quick' else 8
                for op in BIN:
                    for _ in range(1 if tier == 'quick' else 8):
                        idxs = [i for i in INDEXES if _index_ok(i, shape)]
                        out.append(dict(kind='array-binary', cfg=cfg, op=op, ka=list(rng.choice(P)), kb=list(rng.choice(P)), shape=list(shape),
                                        container=container, idx=rng.sample(idxs, min(3, len(idxs))), b_array=bool(rng.random() < 0.7 or op in ('add', 'sub', 'div', 'proj'))))
                for op in UN:
                    idxs = [i for i in INDEXES if _index_ok(i, shape)]
                    out.append(dict(kind='array-unary', cfg=cfg, op=op, ka=list(rng.choice(P)), shape=list(shape), container=container,
                                    idx=rng.sample(idxs, min(3, len(idxs)))))
                for i in [i for i in INDEXES if _index_ok(i, shape)]:
                    out.append(dict(kind='setitem', cfg=cfg, ka=list(rng.choice(P)), shape=list(shape), container=container, idx=i,
                                    rhs=rng.choice(['mv', 'array'])))
                out.append(dict(kind='setitem-permuted', cfg=cfg, ka=list(rng.choice([p for p in P if len(p) >= 2])), shape=list(shape), container=container,
                                idx=rng.choice([i for i in INDEXES if _index_ok(i, shape)])))
                out.append(dict(kind='itermv', cfg=cfg, ka=list(rng.choice(P)), shape=list(shape), container=container))
        # operands whose coefficient arrays have DIFFERENT numbers of trailing axes (broadcast per coefficient, never across
        # the blade axis): same and different key patterns, the leading extra axis as long as the number of blades or not
        for container in ('ndarray', 'list'):
            for op in ('add', 'sub', 'gp', 'op', 'ip', 'sw'):
                for same in (True, False):
                    if op in ('add', 'sub') and not same:
                        # a blade only one operand stores keeps that operand's shape: the result is then not uniformly
                        # indexable, and the property (one trailing shape) does not say it should be
                        continue
                    ka = list(rng.choice(P))
                    kb = ka if same else list(rng.choice(P))
                    for lead in (len(ka), len(ka) + 1):
                        out.append(dict(kind='array-broadcast', cfg=cfg, op=op, ka=ka, kb=kb, lead=lead, container=container))
        # the two container kinds must behave alike, per coefficient: index forms with several advanced indices, a plain
        # number added to an array-valued multivector, assignment of a number / of one array for all coefficients
        for sub in ('advanced-index', 'number-plus-array', 'setitem-broadcast'):
            for _ in range(2 if tier == 'quick' else 8):
                out.append(dict(kind='container-parity', cfg=cfg, sub=sub, ka=list(rng.choice([p for p in P if len(p) >= 2] or P))))
        for sym_op in INFIX:
            for side in ('left', 'right'):
                for what in ('number', 'list', 'tuple', 'callable', 'nested-callable', 'list-of-callables', 'callable-returning-list', 'callable-returning-tuple'):
                    out.append(dict(kind='operand', cfg=cfg, infix=sym_op, side=side, what=what,
                                    ka=list(rng.choice(P)), kb=list(rng.choice(P)), kc=list(rng.choice(P))))
        out.append(dict(kind='concrete-numbers', cfg=cfg, ka=list(rng.choice(P))))
        out.append(dict(kind='native-arrays', cfg=cfg, ka=list(rng.choice(P)), kb=list(rng.choice(P))))
    return out


def _index_ok(i, shape):
    idx = eval(i)
    if not isinstance(idx, tuple):
        idx = (idx,)
    n = sum(1 for x in idx if x is not Ellipsis)
    if n > len(shape):
        return False
    try:
        np.empty(shape)[idx]
    except (IndexError, ValueError):
        return False
    return True


def _amv(alg, V, name, keys, shape, container):
    """array-valued multivector: coefficient j has trailing shape `shape`, entries are fresh labels."""
    from kingdon.multivector import MultiVector
    arrs = []
    for k in keys:
        a = np.empty(shape, dtype=object)
        for ix in np.ndindex(*shape):
            a[ix] = V.var(f'{name}_{k}_' + '_'.join(map(str, ix)))
        arrs.append(a)
    if container == 'ndarray':
        vals = np.empty((len(keys), *shape), dtype=object)
        for j, a in enumerate(arrs):
            vals[j] = a
        return alg.multivector(keys=tuple(keys), values=vals)
    return alg.multivector(keys=tuple(keys), values=arrs)


def _entries(x):
    """{(key, flat position): value} plus {key: shape}."""
    out, shapes = {}, {}
    for k, v in zip(x.keys(), x.values()):
        a = np.asarray(v, dtype=object)
        shapes[k] = a.shape
        for pos, e in enumerate(a.ravel()):
            out[(k, pos)] = e
    return out, shapes


def _cmp_mv(tag, got, want, fkey=None):
    claims = []
    # a coefficient that is the same for every element may be stored as a plain number or broadcast: compare as broadcast
    G = {k: np.asarray(v, dtype=object) for k, v in zip(got.keys(), got.values())}
    W = {k: np.asarray(v, dtype=object) for k, v in zip(want.keys(), want.values())}
    for k in set(G) & set(W):
        if G[k].shape != W[k].shape:
            try:
                shp = np.broadcast_shapes(G[k].shape, W[k].shape)
            except ValueError:
                claims.append(Fail(f'{tag}:shape[{k}]', f'coefficient shape {G[k].shape} vs {W[k].shape}', fkey))
                return claims
            for pos, (g_, w_) in enumerate(zip(np.broadcast_to(G[k], shp).ravel(), np.broadcast_to(W[k], shp).ravel())):
                claims.append(Eq(f'{tag}[{k},{pos}]', g_, w_, fkey))
            G.pop(k); W.pop(k)
    from kingdon.multivector import MultiVector as _MV
    got = _MV.fromkeysvalues(got.algebra, tuple(G), list(G.values()))
    want = _MV.fromkeysvalues(want.algebra, tuple(W), list(W.values()))
    ge, gs = _entries(got)
    we, ws = _entries(want)
    for k in set(gs) & set(ws):
        if gs[k] != ws[k]:
            claims.append(Fail(f'{tag}:shape[{k}]', f'coefficient shape {gs[k]} vs {ws[k]}', fkey))
            return claims
    keys = sorted(set(ge) | set(we))
    for key in keys:
        if key in ge and key in we:
            claims.append(Eq(f'{tag}[{key[0]},{key[1]}]', ge[key], we[key], fkey))
        elif key in ge:
            claims.append(Eq(f'{tag}[{key[0]},{key[1]}]', ge[key], 0, fkey))
        else:
            claims.append(Eq(f'{tag}[{key[0]},{key[1]}]', 0, we[key], fkey))
    return claims


def run_case(desc, V):
    kind = desc['kind']
    alg = get_alg(desc['cfg'])
    from kingdon.multivector import MultiVector
    claims = []
    if kind in ('array-binary', 'array-unary'):
        shape = tuple(desc['shape'])
        X = _amv(alg, V, 'X', desc['ka'], shape, desc['container'])
        op = desc['op']
        if kind == 'array-binary':
            Y = _amv(alg, V, 'Y', desc['kb'], shape, desc['container']) if desc['b_array'] else mv(alg, V, 'y', desc['kb'])
            try:
                R = ops.call_binary(op, X, Y, 'method')
            except ZeroDivisionError:
                return [Eq('raises-zde', 1, 1)]
        else:
            try:
                R = ops.call_unary(op, X, 'method')
            except ZeroDivisionError:
                return [Eq('raises-zde', 1, 1)]
        for istr in desc['idx']:
            idx = eval(istr)
            try:
                R[idx]
            except (TypeError, IndexError) as e:
                shapes = sorted({np.asarray(v, dtype=object).shape for v in R.values()})
                claims.append(Fail(f'{op}:result-not-indexable', f'{op} of array-valued operands with trailing shape {shape}: result coefficients have shapes {shapes}; result[{istr}] raises {type(e).__name__}: {e}',
                                   fkey=f'{kind}|{op}|result-not-indexable'))
                break
            Xi = X[idx]
            if kind == 'array-binary':
                Yi = Y[idx] if desc['b_array'] else Y
                Ri = ops.call_binary(op, Xi, Yi, 'method')
            else:
                Ri = ops.call_unary(op, Xi, 'method')
            claims += _cmp_mv(f'{op}[{istr}]', R[idx], Ri, fkey=f'{kind}|{op}|index')
        return claims
    if kind == 'array-broadcast':
        op, lead = desc['op'], desc['lead']
        X = _amv(alg, V, 'X', desc['ka'], (lead, 2), desc['container'])
        Y = _amv(alg, V, 'Y', desc['kb'], (2,), desc['container'])
        for tag, l, r in (('X.Y', X, Y), ('Y.X', Y, X)):
            fkey = f'array-broadcast|{op}'
            try:
                R = ops.call_binary(op, l, r, 'method')
            except Exception as e:  # noqa
                claims.append(Fail(f'{tag}:raises', f'{op} of coefficient arrays with trailing shapes {(lead, 2)} and (2,) raised {type(e).__name__}: {e}', fkey=fkey + '|raises'))
                continue
            for m in range(lead):
                Rm = ops.call_binary(op, X[m], Y, 'method') if l is X else ops.call_binary(op, Y, X[m], 'method')
                try:
                    got = R[m]
                except (TypeError, IndexError) as e:
                    claims.append(Fail(f'{tag}:result-not-indexable', f'{op}: result[{m}] raises {type(e).__name__}: {e}', fkey=fkey + '|result-not-indexable'))
                    break
                claims += _cmp_mv(f'{tag}[{m}]', got, Rm, fkey=fkey)
        return claims
    if kind == 'container-parity':
        sub = desc['sub']
        shape = (2, 3)
        Xn = _amv(alg, V, 'X', desc['ka'], shape, 'ndarray')
        Xl = _amv(alg, V, 'X', desc['ka'], shape, 'list')           # same labels: the same element in the other container
        if sub == 'advanced-index':
            # two advanced indices separated by a slice / Ellipsis (numpy then moves the indexed axes to the front of an
            # array that carries one more leading axis)
            for istr in ('(0, None, [0, 1])', '([0, 1], None, 1)', '(0, Ellipsis, [1, 0])', '([1, 0], slice(None), [0, 2])'.replace('slice(None), ', '') if False else '([0, 1], [2, 0])', '(0, slice(None), [0, 1])'.replace('slice(None), ', 'Ellipsis, ')):
                idx = eval(istr)
                want = {}
                for k, v in zip(Xl.keys(), Xl.values()):
                    want[k] = np.asarray(v, dtype=object)[idx]
                for cname, X in (('ndarray', Xn), ('list', Xl)):
                    try:
                        R = X[idx]
                    except Exception as e:  # noqa
                        claims.append(Fail(f'index{istr}:{cname}:raises', f'x[{istr}] on the {cname} container raises {type(e).__name__}: {e}', fkey=f'container-parity|advanced-index|{cname}'))
                        continue
                    for k, v in zip(R.keys(), R.values()):
                        got = np.asarray(v, dtype=object)
                        if got.shape != want[k].shape:
                            claims.append(Fail(f'index{istr}:{cname}:shape[{k}]', f'x[{istr}] on the {cname} container: coefficient shape {got.shape}, per-coefficient indexing gives {want[k].shape}',
                                               fkey=f'container-parity|advanced-index|{cname}'))
                            break
                        for pos, (g_, w_) in enumerate(zip(got.ravel(), want[k].ravel())):
                            claims.append(Eq(f'index{istr}:{cname}[{k},{pos}]', g_, w_, fkey=f'container-parity|advanced-index|{cname}'))
            claims.append(Eq('reached', 1, 1))
            return claims
        if sub == 'number-plus-array' and len(desc['ka']) >= 2:
            # coefficients of different rank: shape is the broadcast shape, and indexing must agree with it
            from kingdon.multivector import MultiVector
            ks = list(desc['ka'])[:2]
            A = np.empty((2, 3), dtype=object); B = np.empty((3,), dtype=object)
            for ix in np.ndindex(2, 3):
                A[ix] = V.var(f'A_{ix[0]}_{ix[1]}')
            for j in range(3):
                B[j] = V.var(f'B_{j}')
            u = alg.multivector(keys=tuple(ks), values=[A, B])
            if tuple(u.shape) != (2, 2, 3):
                claims.append(Fail('mixed-rank:shape', f'shape is {u.shape}, expected (2, 2, 3)', fkey='container-parity|mixed-rank'))
            for m in range(2):
                try:
                    um = u[m]
                except Exception as e:  # noqa
                    claims.append(Fail(f'mixed-rank:u[{m}]:raises', f'u[{m}] raises {type(e).__name__}: {e}', fkey='container-parity|mixed-rank'))
                    continue
                want = MultiVector.fromkeysvalues(alg, tuple(ks), [A[m], B])
                claims += _cmp_mv(f'mixed-rank:u[{m}]', um, want, fkey='container-parity|mixed-rank')
            try:
                n_it = sum(1 for _ in u.itermv())
                if n_it != 6:
                    claims.append(Fail('mixed-rank:itermv', f'itermv yields {n_it} elements, expected 6', fkey='container-parity|mixed-rank'))
            except Exception as e:  # noqa
                claims.append(Fail('mixed-rank:itermv:raises', f'itermv raises {type(e).__name__}: {e}', fkey='container-parity|mixed-rank'))
            # item ASSIGNMENT addresses the same elements as indexing: u[m] = value changes exactly element row m
            for vtag, mk in (('multivector', lambda: MultiVector.fromkeysvalues(alg, tuple(ks), [V.var('new0'), V.var('new1')])), ('number', lambda: V.var('newn'))):
                for m in (0, 1):
                    A2 = A.copy(); B2 = B.copy()
                    w = alg.multivector(keys=tuple(ks), values=[A2, B2])
                    val = mk()
                    fk = f'container-parity|mixed-rank|setitem-{vtag}'
                    try:
                        w[m] = val
                    except Exception as e:  # noqa
                        claims.append(Fail(f'mixed-rank:setitem-{vtag}[{m}]:raises', f'w[{m}] = <{vtag}> raises {type(e).__name__}: {str(e)[:80]} (w[{m}] reads fine)', fkey=fk + '|raises'))
                        continue
                    for ix in np.ndindex(2, 3):
                        got = w[ix]
                        gc = dict(zip(got.keys(), got.values()))
                        for c_i, k in enumerate(ks):
                            if ix[0] == m:
                                want_v = (val.values()[c_i] if vtag == 'multivector' else val)
                            else:
                                want_v = A[ix] if c_i == 0 else B[ix[1]]
                            g_ = gc.get(k, 0)
                            if np.ndim(g_) > 0:
                                claims.append(Fail(f'mixed-rank:setitem-{vtag}[{m}]@{ix}[{k}]:shape', f'after w[{m}] = <{vtag}> the element w[{ix}] holds an array of shape {np.shape(g_)} on blade {k}', fkey=fk))
                                continue
                            claims.append(Eq(f'mixed-rank:setitem-{vtag}[{m}]@{ix}[{k}]', g_, want_v, fkey=fk))
        if sub == 'number-plus-array':
            s_ = V.var('s')
            ks = [k for k in desc['ka'] if k != 0] or [1]
            for cname in ('ndarray', 'list'):
                X = _amv(alg, V, 'Y', ks, (3,), cname)                # no scalar blade stored: the number lands on a blade X does not have
                for tag, f in (('s+x', lambda x: s_ + x), ('x-s', lambda x: x - s_), ('s-x', lambda x: s_ - x), ('x**0', lambda x: x ** 0)):
                    R = f(X)
                    for m in range(3):
                        try:
                            got = R[m]
                        except Exception as e:  # noqa
                            claims.append(Fail(f'{tag}:{cname}:result-not-indexable', f'({tag})[{m}] raises {type(e).__name__}: {e} ({tag} on the indexed operand works)',
                                               fkey='container-parity|number-plus-array|result-not-indexable'))
                            break
                        claims += _cmp_mv(f'{tag}:{cname}[{m}]', got, f(X[m]), fkey='container-parity|number-plus-array')
            claims.append(Eq('reached', 1, 1))
            return claims
        # a multivector with PLAIN coefficients assigned to a region with trailing axes: coefficient j gets its own number everywhere
        for cname in ('ndarray', 'list'):
            X = _amv(alg, V, 'W', desc['ka'], shape, cname)
            before, _ = _entries(X)
            rhs_mv = mv(alg, V, 'q', desc['ka'])
            try:
                X[1] = rhs_mv
            except Exception as e:  # noqa
                claims.append(Fail(f'setitem-mv:{cname}:raises', f'x[1] = <multivector with plain coefficients> on the {cname} container raises {type(e).__name__}: {e}',
                                   fkey=f'container-parity|setitem-multivector|{cname}'))
                continue
            after, _ = _entries(X)
            Q = coeffs(rhs_mv)
            for k in desc['ka']:
                for ix in np.ndindex(*shape):
                    pos = int(np.ravel_multi_index(ix, shape))
                    claims.append(Eq(f'setitem-mv:{cname}[{k},{pos}]', after[(k, pos)], Q[k] if ix[0] == 1 else before[(k, pos)], fkey=f'container-parity|setitem-multivector|{cname}'))
        # setitem-broadcast: a number, or ONE array for all coefficients, assigned through the multivector
        for rhs_kind in ('number', 'array', 'array-keepdims'):
            for cname in ('ndarray', 'list'):
                X = _amv(alg, V, 'Z', desc['ka'], shape, cname)
                before, _ = _entries(X)
                rhs = V.var('r') if rhs_kind == 'number' else np.array([V.var('r0'), V.var('r1'), V.var('r2')], dtype=object)
                if rhs_kind == 'array-keepdims':
                    # the same array with a leading axis of length one (keepdims=True, value[None], atleast_2d): numpy broadcasting
                    # repeats it over the coefficient axis, like the array without that axis
                    rhs = rhs[None]
                try:
                    X[1] = rhs
                except Exception as e:  # noqa
                    claims.append(Fail(f'setitem-{rhs_kind}:{cname}:raises', f'x[1] = <{rhs_kind}> on the {cname} container raises {type(e).__name__}: {e}',
                                       fkey=f'container-parity|setitem-broadcast|{cname}'))
                    continue
                after, _ = _entries(X)
                for k in desc['ka']:
                    for ix in np.ndindex(*shape):
                        pos = int(np.ravel_multi_index(ix, shape))
                        want = (rhs if rhs_kind == 'number' else np.reshape(rhs, (-1,))[ix[1]]) if ix[0] == 1 else before[(k, pos)]
                        claims.append(Eq(f'setitem-{rhs_kind}:{cname}[{k},{pos}]', after[(k, pos)], want, fkey=f'container-parity|setitem-broadcast|{cname}'))
        claims.append(Eq('reached', 1, 1))
        return claims
    if kind == 'setitem':
        shape = tuple(desc['shape'])
        X = _amv(alg, V, 'X', desc['ka'], shape, desc['container'])
        before, _ = _entries(X)
        stale = [~X, X.involute(), -X, X + X]          # computed BEFORE the assignment: nothing of it may stick to X
        idx = eval(desc['idx'])
        sub_shape = np.empty(shape)[idx if isinstance(idx, tuple) else (idx,)].shape
        # right-hand side with fresh labels
        new = {}
        if desc['rhs'] == 'mv':
            Vm = _amv(alg, V, 'N', desc['ka'], sub_shape, 'list') if sub_shape else mv(alg, V, 'N', desc['ka'])
            X[idx] = Vm
            for k, v in zip(Vm.keys(), Vm.values()):
                new[k] = np.asarray(v, dtype=object) if sub_shape else v
        else:
            arr = np.empty((len(desc['ka']), *sub_shape), dtype=object)
            for j, k in enumerate(desc['ka']):
                for ix in np.ndindex(*sub_shape):
                    arr[(j, *ix)] = V.var(f'N_{k}_' + '_'.join(map(str, ix)))
            X[idx] = arr
            for j, k in enumerate(desc['ka']):
                new[k] = arr[j] if sub_shape else arr[j].item() if hasattr(arr[j], 'item') else arr[j]
        after, _ = _entries(X)
        # expected: addressed entries replaced, all others untouched
        for j, k in enumerate(desc['ka']):
            exp = np.empty(shape, dtype=object)
            for ix in np.ndindex(*shape):
                exp[ix] = before[(k, int(np.ravel_multi_index(ix, shape)))]
            exp[idx if isinstance(idx, tuple) else (idx,)] = new[k]
            for pos, e in enumerate(exp.ravel()):
                claims.append(Eq(f'setitem[{k},{pos}]', after[(k, pos)], e, fkey='setitem|entries'))
        # operators applied AFTER the assignment see the updated coefficients (no stale per-instance caches)
        from kingdon.multivector import MultiVector
        Xf = MultiVector.fromkeysvalues(alg, tuple(X.keys()), [np.array(v, dtype=object) if hasattr(v, 'shape') else v for v in X.values()])
        for name, got, want in (('reverse', ~X, ~Xf), ('involute', X.involute(), Xf.involute()), ('neg', -X, -Xf), ('add', X + X, Xf + Xf)):
            claims += _cmp_mv(f'after-setitem:{name}', got, want, fkey='setitem|operator-after-assignment')
        return claims
    if kind == 'setitem-permuted':
        # right-hand side holds the same blades in ANOTHER key order: either refused, or assigned blade by blade
        shape = tuple(desc['shape'])
        X = _amv(alg, V, 'X', desc['ka'], shape, desc['container'])
        before, _ = _entries(X)
        idx = eval(desc['idx'])
        sub_shape = np.empty(shape)[idx if isinstance(idx, tuple) else (idx,)].shape
        kp = list(reversed(desc['ka']))
        Y = _amv(alg, V, 'N', kp, sub_shape, 'list') if sub_shape else mv(alg, V, 'N', kp)
        try:
            X[idx] = Y
        except ValueError:
            after, _ = _entries(X)
            return [Eq(f'refused-unchanged[{k},{pos}]', after[(k, pos)], v, fkey='setitem|permuted-keys') for (k, pos), v in before.items()]
        after, _ = _entries(X)
        newv = {k: np.asarray(v, dtype=object) if sub_shape else v for k, v in zip(Y.keys(), Y.values())}
        for k in desc['ka']:
            exp = np.empty(shape, dtype=object)
            for ix in np.ndindex(*shape):
                exp[ix] = before[(k, int(np.ravel_multi_index(ix, shape)))]
            exp[idx if isinstance(idx, tuple) else (idx,)] = newv[k]
            for pos, e in enumerate(exp.ravel()):
                claims.append(Eq(f'setitem-permuted[{k},{pos}]', after[(k, pos)], e, fkey='setitem|permuted-keys'))
        return claims
    if kind == 'itermv':
        shape = tuple(desc['shape'])
        X = _amv(alg, V, 'X', desc['ka'], shape, desc['container'])
        if tuple(X.shape) != (len(desc['ka']), *shape):
            claims.append(Fail('shape', f'shape {X.shape} != {(len(desc["ka"]), *shape)}'))
        items = list(X.itermv())
        if len(items) != int(np.prod(shape)):
            claims.append(Fail('itermv:len', f'{len(items)} items for shape {shape}'))
        for pos, (ix, it) in enumerate(zip(np.ndindex(*shape), items)):
            claims += _cmp_mv(f'itermv[{pos}]', it, X[ix], fkey='itermv|element')
        s1 = mv(alg, V, 's', desc['ka'])
        if s1.itermv() is not s1:
            claims.append(Fail('itermv:scalar', 'itermv of a plain multivector is not itself'))
        return claims
    if kind == 'operand':
        f = INFIX[desc['infix']]
        m = mv(alg, V, 'm', desc['ka'])
        a = mv(alg, V, 'a', desc['kb'])
        b = mv(alg, V, 'b', desc['kc'])
        left = desc['side'] == 'left'
        what = desc['what']
        fkey = f'operand|{what}|{"left" if left else "right"}|{desc["infix"]}'

        def direct(x):
            return f(x, m) if left else f(m, x)

        try:
            if what == 'number':
                s = V.var('s')
                smv = MultiVector.fromkeysvalues(alg, (0,), [s])
                got = f(s, m) if left else f(m, s)
                return _cmp_mv('number', got, direct(smv), fkey)
            if what in ('list', 'tuple'):
                seq = [a, b] if what == 'list' else (a, b)
                got = f(seq, m) if left else f(m, seq)
                if type(got) is not type(seq) or len(got) != 2:
                    return [Fail('sequence:type', f'result is {type(got).__name__} of length {len(got) if hasattr(got, "__len__") else "?"}', fkey)]
                return _cmp_mv('seq[0]', got[0], direct(a), fkey) + _cmp_mv('seq[1]', got[1], direct(b), fkey)
            if what == 'callable':
                c = lambda: a
                got = f(c, m) if left else f(m, c)
                return _cmp_mv('callable', got, direct(a), fkey)
            if what == 'nested-callable':
                c = lambda: (lambda: a)
                got = f(c, m) if left else f(m, c)
                return _cmp_mv('nested-callable', got, direct(a), fkey)
            if what in ('callable-returning-list', 'callable-returning-tuple'):
                seq = [a, b] if what.endswith('list') else (a, b)
                c = (lambda: seq) if desc['infix'] in '*^|' else (lambda: (lambda: seq))
                got = f(c, m) if left else f(m, c)
                if not isinstance(got, (list, tuple)) or len(got) != 2:
                    return [Fail('callable-sequence:type', f'a callable whose value is a {type(seq).__name__} gave {type(got).__name__}', fkey)]
                return _cmp_mv('seq[0]', got[0], direct(a), fkey) + _cmp_mv('seq[1]', got[1], direct(b), fkey)
            if what == 'list-of-callables':
                seq = [lambda: a, lambda: b]
                got = f(seq, m) if left else f(m, seq)
                return _cmp_mv('seq[0]', got[0], direct(a), fkey) + _cmp_mv('seq[1]', got[1], direct(b), fkey)
        except ZeroDivisionError:
            return [Eq('raises-zde', 1, 1)]
        raise ValueError(what)
    if kind == 'concrete-numbers':
        m = alg.multivector(keys=tuple(desc['ka']), values=[Fraction(i + 2, 3) for i in range(len(desc['ka']))])
        for num in (3, 2.5, Fraction(7, 2), np.float64(1.5), np.int64(4)):
            for sym_op, f in INFIX.items():
                for left in (True, False):
                    smv = alg.multivector(keys=(0,), values=[num])
                    try:
                        want = f(smv, m) if left else f(m, smv)
                    except Exception:   # the scalar multivector itself cannot do it (e.g. numpy ints to negative powers)
                        continue
                    try:
                        got = f(num, m) if left else f(m, num)
                    except Exception as e:  # noqa
                        claims.append(Fail(f'concrete-number', f'{type(num).__name__} {sym_op} mv ({"left" if left else "right"}) raised {type(e).__name__}: {e}',
                                           fkey=f'concrete-number|{type(num).__name__}|raises'))
                        continue
                    if not isinstance(got, MultiVector):
                        claims.append(Fail('concrete-number:type', f'{type(num).__name__} {sym_op} mv returned {type(got).__name__}',
                                           fkey=f'concrete-number|{type(num).__name__}|type'))
                        continue
                    claims += _cmp_mv(f'{type(num).__name__}{sym_op}', got, want, fkey=f'concrete-number|{type(num).__name__}|value')
        claims.append(Eq('reached', 1, 1))
        x_ = alg.multivector(keys=tuple(desc['ka']), values=[4.0 + i for i in range(len(desc['ka']))])
        for tname, two in (('np.int64', np.int64(2)), ('np.int32', np.int32(2)), ('np.float64', np.float64(2)), ('int', 2)):
            try:
                r = x_ / two
            except Exception as e:  # noqa
                claims.append(Fail(f'div-by-{tname}', f'x / {tname}(2) raises {type(e).__name__}: {e} (x / 2 works)', fkey=f'concrete-numbers|division-by-numpy-integer'))
                continue
            for (k, v), (k2, v2) in zip(coeffs(r).items(), coeffs(x_ / 2).items()):
                if k != k2 or abs(complex(v) - complex(v2)) > 1e-12:
                    claims.append(Fail(f'div-by-{tname}:value', f'x / {tname}(2) differs from x / 2', fkey='concrete-numbers|division-by-numpy-integer'))
        return claims
    if kind == 'native-arrays':
        # sampling only: float64 arrays, shape/dtype plumbing through a few operators
        rs = np.random.RandomState(len(desc['ka']) * 7 + len(desc['kb']))
        X = alg.multivector(keys=tuple(desc['ka']), values=rs.randint(-3, 4, size=(len(desc['ka']), 4)).astype(float))
        Y = alg.multivector(keys=tuple(desc['kb']), values=rs.randint(-3, 4, size=(len(desc['kb']), 4)).astype(float))
        for op in ('gp', 'op', 'add', 'sw'):
            R = ops.call_binary(op, X, Y, 'method')
            for i in range(4):
                Ri = ops.call_binary(op, X[i], Y[i], 'method')
                claims += _cmp_mv(f'native-{op}[{i}]', R[i], Ri, fkey='native|index')
        return claims
    raise ValueError(kind)
