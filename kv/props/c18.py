"""
C18 -- matrix representations are faithful.

Engine A with object matrices of solver terms:
 hom        symbolic dense x, y (d<=3):  (x*y).asmatrix() == x.asmatrix() @ y.asmatrix() entry by
            entry; asmatrix(x+y) = asmatrix(x)+asmatrix(y), asmatrix(s*x) = s*asmatrix(x); the first
            column holds the coefficients in canonical order (=> injective); frommatrix(asmatrix(x)) == x.
 hom-blades d = 4, 5: pairs of symbolic multiples of basis blades a*E_I, b*E_J (complete by the
            bilinearity proved above).
 expr       expr_as_matrix(f, .., x) for linear expressions f (sandwich, products, grade, duals,
            commutator ...): the returned A and y are translated to solver terms (kv.sy2z3) and
            A . coeffs(x) = coeffs(y) is proved for all x and all values of the symbolic other inputs;
            y is compared with a direct evaluation of f on solver terms; res_like restrictions; numeric
            and array-valued other inputs on concrete rationals (the numeric path builds float arrays).
"""
from __future__ import annotations

import random
from fractions import Fraction

import numpy as np

from ..core import Eq, Fail, Note
from .. import pat, ops, sym, sy2z3
from ..kapi import get_alg, make_alg, mv, coeffs, mv_eq_claims, eq_claims, kmap
from ..sym import SV

PROP = 'C18'
LEVEL = 'translation_validation'
ENGINES = ['A', 'S']
FUNCTIONS = ['matrixreps.matrix_rep', 'matrixreps.ordering_matrix', 'Algebra.matrix_basis', 'MultiVector.asmatrix', 'MultiVector.frommatrix',
             'matrixreps.expr_as_matrix (sympy collect/coeff path, numeric path, array path via sympy.lambdify)']
ASSUMPTIONS = ['coefficients are reals; matrices are object ndarrays of solver terms', 'expr_as_matrix: f is linear in its last argument (as the API documents)',
               'numeric / array-valued other inputs are concrete small rationals (the numeric path allocates float arrays)']
BOUNDS = {'quick': 'all (p,q,r) and all explicit signature orderings d<=3 (dense), d=4 all blade pairs for 4 signatures, d=5 sampled blade pairs; custom bases: named + sampled; 12 linear expressions x 4 algebras; res_like in numeric and array modes; x named like the internal stand-ins; empty multivector; complex / captured-symbolic inputs (concrete)',
          'thorough': 'd=4 all (p,q,r), d=5 more pairs, 60 custom bases'}
OUTSIDE = ['d > 5', 'expressions that are not linear in the last argument']
OPTS = {'rlimit': 300_000_000, 'canary_every': 6, 'case_budget_s': 120}
CHUNKS_PER_WORKER = 14


def cases(tier, seed):
    rng = random.Random(seed * 7919 + 18)
    out = []
    for d in (0, 1, 2, 3):
        cfgs = [dict(p=p, q=q, r=r) for p, q, r in pat.pqr_all(d)]
        if d >= 2:
            cfgs += [dict(signature=list(s)) for s in pat.signatures_all(d) if list(s) != sorted(s, key=lambda v: {1: 0, -1: 1, 0: 2}[v])]
        for cfg in cfgs:
            out.append(dict(kind='hom', cfg=cfg))
    cfg4 = [dict(p=4), dict(p=3, r=1), dict(p=1, q=3), dict(signature=[-1, 0, 1, 1])]
    if tier == 'thorough':
        cfg4 = [dict(p=p, q=q, r=r) for p, q, r in pat.pqr_all(4)] + [dict(signature=[-1, 0, 1, 1]), dict(signature=[1, -1, 1, -1])]
    for cfg in cfg4:
        for I in range(16):
            out.append(dict(kind='hom-blades', cfg=cfg, I=I, Js=list(range(16))))
    for cfg in [dict(p=4, q=1), dict(p=3, q=1, r=1), dict(signature=[1, -1, 0, 1, 1])]:
        for _ in range(12 if tier == 'quick' else 60):
            out.append(dict(kind='hom-blades', cfg=cfg, I=rng.randrange(32), Js=rng.sample(range(32), 4)))
    # custom bases
    cb = [dict(name='2DPGA'), dict(name='3DPGA'), dict(p=2, basis=['e', 'e2', 'e1', 'e12']), dict(p=2, basis=['e', 'e1', 'e2', 'e21']),
          dict(p=3, basis=['e', 'e1', 'e2', 'e3', 'e12', 'e31', 'e23', 'e123'])]
    # every spelling of the pseudoscalar of a 3-D algebra (cyclic rotations / reversals have other inversion parities than descents)
    import itertools as _it
    for w in _it.permutations('123'):
        cb.append(dict(p=3, basis=['e', 'e1', 'e2', 'e3', 'e12', 'e13', 'e23', 'e' + ''.join(w)]))
    cb.append(dict(p=2, r=1, basis=['e', 'e0', 'e1', 'e2', 'e01', 'e20', 'e12', 'e120']))
    for _ in range(14 if tier == 'quick' else 60):
        d = rng.choice((2, 3, 3, 3))
        pqr = rng.choice(pat.pqr_all(d))
        cb.append(dict(p=pqr[0], q=pqr[1], r=pqr[2], basis=pat.random_basis(pqr, rng)))
    for _ in range(3 if tier == 'quick' else 20):
        pqr = rng.choice(pat.pqr_all(4))
        cfg = dict(p=pqr[0], q=pqr[1], r=pqr[2], basis=pat.random_basis(pqr, rng))
        for I in rng.sample(range(16), 5) + [15]:
            out.append(dict(kind='hom-blades', cfg=cfg, I=I, Js=list(range(16)), custom=True))
    for cfg in cb:
        out.append(dict(kind='hom', cfg=cfg, custom=True) if cfg.get('name') != '3DPGA' else dict(kind='hom-blades', cfg=cfg, I=5, Js=list(range(16)), custom=True))
    # expr_as_matrix
    for cfg in (dict(p=2), dict(p=1, q=1), dict(p=2, r=1), dict(p=3)):
        for e in EXPRS:
            for mode in ('symbolic', 'numeric'):
                out.append(dict(kind='expr', cfg=cfg, expr=e, mode=mode, res_like=False))
            out.append(dict(kind='expr', cfg=cfg, expr=e, mode='symbolic', res_like=True))
            if len(EXPRS[e]) == 3 and EXPRS[e][1] is not None:
                out.append(dict(kind='expr', cfg=cfg, expr=e, mode='numeric', res_like=True))
        for e in ('sw', 'gp', 'odd', 'gp-right', 'half', 'cp'):
            out.append(dict(kind='expr', cfg=cfg, expr=e, mode='array', res_like=False))
            out.append(dict(kind='expr', cfg=cfg, expr=e, mode='array', res_like=True))
        # numeric other inputs with COMPLEX coefficients, and an expression whose only input is x while the other factor is a
        # symbolic multivector captured by the function (concrete sampling of the dtype plumbing, stated as such)
        for e in ('sw', 'gp', 'cp'):
            out.append(dict(kind='expr-concrete', cfg=cfg, expr=e, sub='complex'))
            out.append(dict(kind='expr-concrete', cfg=cfg, expr=e, sub='captured-symbolic'))
        # the NAME of the symbolic last argument is not part of the contract (single capital letters are what the
        # implementation uses for its own stand-ins of array-valued inputs)
        # (x WITHOUT a scalar part whose keys overlap those of an array-valued input: the stand-in 'A' owns symbols A1, A2, ...
        # while x named 'A' has no symbol 'A' itself -- seed C18m)
        for e, xname in (('sw', 'A'), ('gp', 'A'), ('cp', 'B'), ('half', 'A'), ('sw', 'R'), ('op', 'A'), ('proj', 'A'), ('two', 'A'), ('two', 'B')):
            for mode in ('array', 'numeric', 'symbolic'):
                out.append(dict(kind='expr', cfg=cfg, expr=e, mode=mode, res_like=False, xname=xname))
    return out


EXPRS = {
    'sw': ('lambda R, x: R >> x', 'even', 'vector'),
    'gp': ('lambda R, x: R * x', 'full', 'full'),
    'gp-right': ('lambda R, x: x * R', 'vector', 'full'),
    'cp': ('lambda R, x: R.cp(x)', 'bivector', 'vector'),
    'op': ('lambda R, x: R ^ x', 'vector', 'vector'),
    'ip': ('lambda R, x: R | x', 'vector', 'bivector'),
    'grade-dual': ('lambda R, x: (R * x).grade(1) + x.hodge().hodge()', 'even', 'vector'),
    'rev': ('lambda R, x: ~(R * x) - x', 'full', 'even'),
    'unary': ('lambda x: ~x + x.involute()', None, 'full'),
    'rp': ('lambda R, x: R & x', 'bivector', 'full'),
    'proj': ('lambda R, x: (x | R) * ~R', 'vector', 'vector'),
    'two': ('lambda S, R, x: S * x * R', 'vector', 'even', 'vector'),
    'half': ('lambda R, x: (R * x) / 2', 'even', 'vector'),
    'inv-sw': ('lambda R, x: R.inv() >> x', 'vector', 'vector'),
    'right-div': ('lambda R, x: x * R.inv()', 'bivector', 'full'),
    'odd': ('lambda R, x: R * x - x * R', 'odd', 'full'),
}


def _keys_of(alg, what):
    order = list(alg.canon2bin.values())
    pc = lambda k: bin(k).count('1')
    if what == 'full':
        return order
    if what == 'even':
        return [k for k in order if pc(k) % 2 == 0]
    if what == 'odd':
        return [k for k in order if pc(k) % 2 == 1]
    if what == 'vector':
        return [k for k in order if pc(k) == 1]
    if what == 'bivector':
        return [k for k in order if pc(k) == 2] or [k for k in order if pc(k) == 1]
    raise ValueError(what)


def _mat_claims(tag, M1, M2, fkey=None):
    M1, M2 = np.asarray(M1, dtype=object), np.asarray(M2, dtype=object)
    if M1.shape != M2.shape:
        return [Fail(f'{tag}:shape', f'{M1.shape} vs {M2.shape}', fkey)]
    out = []
    for ix in np.ndindex(*M1.shape):
        out.append(Eq(f'{tag}[{",".join(map(str, ix))}]', M1[ix], M2[ix], fkey))
    return out


def run_case(desc, V):
    kind = desc['kind']
    alg = get_alg(desc['cfg'])
    from kingdon.multivector import MultiVector
    claims = []
    order = list(alg.canon2bin.values())
    fk = 'custom-basis' if desc.get('custom') else 'default-basis'
    if kind == 'hom':
        x = mv(alg, V, 'x', order)
        y = mv(alg, V, 'y', list(range(2 ** alg.d)))       # binary layout for the second operand
        Mx, My = x.asmatrix(), y.asmatrix()
        claims += _mat_claims('hom', (x * y).asmatrix(), Mx @ My, fkey=f'hom|{fk}|multiplicative')
        claims += _mat_claims('additive', (x + y).asmatrix(), Mx + My, fkey=f'hom|{fk}|additive')
        s = V.var('s')
        claims += _mat_claims('homogeneous', (s * x).asmatrix(), s * Mx, fkey=f'hom|{fk}|homogeneous')
        X = coeffs(x)
        for i, k in enumerate(order):
            claims.append(Eq(f'first-column[{i}]', np.asarray(Mx, dtype=object)[i, 0], X[k], fkey=f'hom|{fk}|first-column'))
        back = MultiVector.frommatrix(alg, Mx)
        claims += mv_eq_claims('frommatrix', back, X, fkey=f'hom|{fk}|frommatrix')
        empty = alg.multivector(keys=(), values=[])
        Me = empty.asmatrix()
        if not hasattr(Me, 'shape') or tuple(Me.shape) != (2 ** alg.d,) * 2:
            claims.append(Fail('empty:type', f'asmatrix() of the empty multivector is {Me!r}, not a {2 ** alg.d}x{2 ** alg.d} zero matrix', fkey=f'hom|{fk}|empty-multivector'))
        else:
            claims += _mat_claims('empty', Me, np.zeros((2 ** alg.d,) * 2, dtype=int), fkey=f'hom|{fk}|empty-multivector')
            try:
                claims += mv_eq_claims('frommatrix(empty)', MultiVector.frommatrix(alg, Me), {}, fkey=f'hom|{fk}|empty-multivector')
            except Exception as e:  # noqa
                claims.append(Fail('frommatrix(empty)', f'frommatrix(asmatrix(empty)) raises {type(e).__name__}: {e}', fkey=f'hom|{fk}|empty-multivector'))
        one = alg.multivector(keys=(0,), values=[1]).asmatrix()
        claims += _mat_claims('unit', one, np.eye(2 ** alg.d, dtype=int), fkey=f'hom|{fk}|unit')
        return claims
    if kind == 'hom-blades':
        a, b = V.var('a'), V.var('b')
        I = desc['I']
        x = MultiVector.fromkeysvalues(alg, (I,), [a])
        Mx = x.asmatrix()
        for i, k in enumerate(order):
            claims.append(Eq(f'first-column[{i}]', np.asarray(Mx, dtype=object)[i, 0], a if k == I else 0, fkey=f'hom|{fk}|first-column'))
        for J in desc['Js']:
            y = MultiVector.fromkeysvalues(alg, (J,), [b])
            Mxy = (x * y).asmatrix()
            if not hasattr(Mxy, 'shape') or tuple(Mxy.shape) != (2 ** alg.d,) * 2:
                claims.append(Fail(f'hom[{I},{J}]:type', f'asmatrix() of the product of blades {I} and {J} (the empty multivector) is {Mxy!r}, not a {2 ** alg.d}x{2 ** alg.d} matrix',
                                   fkey=f'hom|{fk}|empty-multivector'))
                continue
            claims += _mat_claims(f'hom[{I},{J}]', Mxy, Mx @ y.asmatrix(), fkey=f'hom|{fk}|multiplicative')
        return claims
    if kind == 'expr':
        return _run_expr(desc, V, alg)
    if kind == 'expr-concrete':
        return _run_expr_concrete(desc, alg)
    raise ValueError(kind)


def _run_expr_concrete(desc, alg):
    import sympy
    from kingdon.matrixreps import expr_as_matrix
    from kingdon.multivector import MultiVector
    from ..core import concrete_equal
    spec = EXPRS[desc['expr']]
    f = eval(spec[0])
    kR, kx = _keys_of(alg, spec[1]), _keys_of(alg, spec[2])
    x = alg.multivector(name='x', keys=tuple(kx))
    xv = [0.5 + 0.25 * i for i in range(len(kx))]
    claims = [Note('nontrivial', ''), Eq('reached', 1, 1)]
    fkey = f'expr-concrete|{desc["sub"]}'
    try:
        if desc['sub'] == 'complex':
            Rv = [complex(1 + i, 2 - i) for i in range(len(kR))]
            R = alg.multivector(keys=tuple(kR), values=list(Rv))
            A, y = expr_as_matrix(f, R, x)
            sub = {}
        else:
            Rs = alg.multivector(name='R', keys=tuple(kR))
            Rv = [1.5 - 0.5 * i for i in range(len(kR))]
            A, y = expr_as_matrix(lambda x_: f(Rs, x_), x)
            sub = dict(zip(Rs.values(), Rv))
            R = alg.multivector(keys=tuple(kR), values=list(Rv))
    except Exception as e:  # noqa
        return claims + [Fail('expr-concrete:raises', f'expr_as_matrix raises {type(e).__name__}: {e}', fkey=fkey + '|raises')]
    want = coeffs(f(R, alg.multivector(keys=tuple(kx), values=list(xv))))
    rows = []
    for i in range(len(y)):
        row = 0
        for j in range(len(xv)):
            aij = A[i][j] if isinstance(A, list) else A[i, j]
            if isinstance(aij, sympy.Basic):
                aij = complex(aij.subs(sub))
            row = row + complex(aij) * xv[j]
        rows.append(row)
    for i, k in enumerate(y.keys()):
        if not concrete_equal(rows[i], want.get(k, 0), tol=1e-9):
            claims.append(Fail(f'A.x[{k}]', f'A . x = {rows[i]!r} on blade {k}, f(R, x) has {want.get(k, 0)!r}', fkey=fkey + '|A.x=y'))
    for k, v in want.items():
        if k not in y.keys() and not concrete_equal(v, 0, tol=1e-9):
            claims.append(Fail(f'y-missing[{k}]', f'y lacks blade {k} = {v!r}', fkey=fkey + '|y'))
    return claims


def _run_expr(desc, V, alg):
    import sympy
    from kingdon.matrixreps import expr_as_matrix
    from kingdon.multivector import MultiVector
    spec = EXPRS[desc['expr']]
    f = eval(spec[0])
    kinds = spec[1:]
    if len(kinds) == 2 and kinds[0] is None:
        kinds = (kinds[1],)
    names = ['S', 'R', 'x'][-len(kinds):] if len(kinds) == 3 else (['R', 'x'] if len(kinds) == 2 else ['x'])
    mode = desc['mode']
    claims = []
    sym_inputs, num_inputs, env = [], [], {}
    xname = desc.get('xname', 'x')
    if mode == 'symbolic' and xname in names:
        xname = 'x'          # (two symbolic inputs of one name are one input)
    names = names[:-1] + [xname]
    for pos, (nm, what) in enumerate(zip(names, kinds)):
        keys = _keys_of(alg, what)
        last = pos == len(names) - 1
        if last or mode == 'symbolic':
            m = alg.multivector(name=nm, keys=tuple(keys))
            vals = []
            for s_ in m.values():
                v = V.var(str(s_))
                env[str(s_)] = v
                vals.append(v)
            sym_inputs.append(m)
            num_inputs.append(MultiVector.fromkeysvalues(alg, tuple(keys), vals))
        elif mode == 'numeric':
            vals = [Fraction((i * 7 + 3) % 5 - 2) or Fraction(1) for i in range(len(keys))]
            sym_inputs.append(alg.multivector(keys=tuple(keys), values=[int(v) for v in vals]))
            num_inputs.append(MultiVector.fromkeysvalues(alg, tuple(keys), vals))
        else:  # array-valued other input (native ints: concrete sampling of the lambdify plumbing)
            arr = np.array([[(i * 3 + j * 5) % 7 - 3 for j in range(3)] for i in range(len(keys))], dtype=float)
            sym_inputs.append(alg.multivector(keys=tuple(keys), values=arr))
            num_inputs.append(arr)
    x_sym = sym_inputs[-1]
    res_like = None
    if desc.get('res_like'):
        if mode == 'array':
            first = [MultiVector.fromkeysvalues(alg, tuple(m.keys()), [Fraction(v) for v in arr[:, 0]]) for m, arr in zip(sym_inputs[:-1], num_inputs[:-1])]
            yk = list(f(*first, num_inputs[-1]).keys())
        else:
            yk = list(f(*num_inputs).keys())
        if not yk:
            return [Eq('empty-result', 1, 1)]
        res_like = alg.multivector(keys=tuple(yk[::2] or yk[:1]), values=[1] * len(yk[::2] or yk[:1]))
    A, y = expr_as_matrix(f, *sym_inputs, res_like=res_like)
    xs = [env[str(s_)] for s_ in x_sym.values()]
    if mode == 'array':
        # per array element: A[i][j] is a scalar or an array over the trailing axis
        for t in range(3):
            elem_inputs = [MultiVector.fromkeysvalues(alg, tuple(m.keys()), [Fraction(v) for v in arr[:, t]]) for m, arr in zip(sym_inputs[:-1], num_inputs[:-1])]
            elem_inputs.append(num_inputs[-1])
            direct = coeffs(f(*elem_inputs))
            if res_like is not None:
                direct = {k: direct.get(k, 0) for k in res_like.keys()}
            ykeys = list(y.keys())
            if len(A) != len(ykeys):
                return claims + [Fail('A:rows', f'A has {len(A)} rows for {len(ykeys)} result blades', fkey=f'expr|{mode}|shape')]
            if res_like is not None and tuple(ykeys) != tuple(res_like.keys()):
                claims.append(Fail('y:keys', f'y stores blades {tuple(ykeys)}, res_like asked for {tuple(res_like.keys())}', fkey=f'expr|{mode}|res_like-keys'))
            for i, k in enumerate(ykeys):
                row = 0
                for j in range(len(xs)):
                    aij = A[i][j]
                    aij = aij[t] if hasattr(aij, '__len__') else aij
                    row = row + sym.snap_float(float(aij)) * xs[j]
                claims.append(Eq(f'A.x[{t},{k}]', row, direct.get(k, 0), fkey=f'expr|{mode}|A.x=y'))
            for k in direct:
                if k not in ykeys:
                    claims.append(Eq(f'y-missing[{t},{k}]', 0, direct[k], fkey=f'expr|{mode}|y'))
            # y itself (a multivector with array-valued sympy/number coefficients): element t equals the direct evaluation
            for k, v in coeffs(y).items():
                vt = v[t] if hasattr(v, '__len__') else v
                vt = sy2z3.to_value(vt, env) if isinstance(vt, sympy.Basic) else (sym.snap_float(float(vt)) if isinstance(vt, (float, np.floating)) else vt)
                claims.append(Eq(f'y[{t},{k}]', vt, direct.get(k, 0), fkey=f'expr|{mode}|y'))
        return claims
    direct = coeffs(f(*num_inputs))
    Y = {k: sy2z3.to_value(v, env) if isinstance(v, sympy.Basic) else v for k, v in coeffs(y).items()}
    want = direct if res_like is None else {k: direct.get(k, 0) for k in res_like.keys()}
    claims += eq_claims('y=f(..,x)', Y, want, fkey=f'expr|{mode}|y')
    ykeys = list(y.keys())
    nrows = A.shape[0] if hasattr(A, 'shape') else len(A)
    if nrows != len(ykeys):
        return claims + [Fail('A:rows', f'A has {nrows} rows for {len(ykeys)} result blades', fkey=f'expr|{mode}|shape')]
    for i, k in enumerate(ykeys):
        row = 0
        for j in range(len(xs)):
            aij = A[i, j]
            if isinstance(aij, sympy.Basic):
                aij = sy2z3.to_value(aij, env)
            elif isinstance(aij, (float, np.floating)):
                aij = sym.snap_float(float(aij))
            row = row + aij * xs[j]
        claims.append(Eq(f'A.x[{k}]', row, Y[k], fkey=f'expr|{mode}|A.x=y'))
    return claims
