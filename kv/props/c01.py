"""
C01 -- basis-blade products follow the Clifford relations of the chosen signature.

(a) symbolic signature: an algebra is constructed normally (any start index / custom basis),
    then its ``signature`` array is replaced by solver variables s_i constrained to {-1,0,1}
    and the real ``Algebra._prepare_signs`` (with its closure ``_compute_sign`` and
    ``_swap_blades``) is re-run, so ONE table of z3 terms stands for all 3^d signatures.
    Query: some entry differs from the independent reference closed form -> must be unsat.
(b) the Clifford relations directly on that symbolic table for small d: generator squares,
    anticommutation, associativity over all triples, and  e_i e_j .. e_k  folded through the
    table = +1 * (the blade the algebra names e_ij..k)  -- this pins custom spellings (e31).
(c) the reference closed form itself is proved to satisfy the Clifford relations for
    symbolic blade indices I, J, K and symbolic signature masks at width W (pure QF_BV), so
    (a) transfers the relations to d = 7, 8 where triples are too many to enumerate; the
    bit-vector transcription is validated against the Python reference on all pairs (d<=4).
(d) concrete instantiation (enumerated, no solver needed): for concrete (p,q,r), explicit
    orderings, start indices and custom bases the constructor's own table equals the
    reference, ``alg.cayley`` parses back to the same signs/blades, every permutation
    spelling of every blade resolves to +-blade with the reference parity, and
    ``alg.blades[a] * alg.blades[b]`` through the public operator agrees with the table.
"""
from __future__ import annotations

import itertools
import random
import time

import numpy as np
import z3

from ..core import Eq, Fail, Note, _new_result, _violation
from .. import pat, sym, bv
from ..sym import SV
from ..ref import KMap, RefAlg, popcount, reorder_sign, spelling_to_mask
from ..kapi import make_alg, coeffs

PROP = 'C01'
LEVEL = 'other'
ENGINES = ['A', 'B']
FUNCTIONS = ['Algebra.__post_init__', 'Algebra._prepare_signs', '_compute_sign (closure)', '_swap_blades',
             'DefaultKeyDict.__missing__ (lazy table, d>6)', 'Algebra.cayley', 'Algebra._blade2canon', 'BladeDict.__getitem__',
             'codegen_gp on unit blades']
ASSUMPTIONS = ['signature entries range over {-1,0,1} (solver variables); bases, start indices, spellings and dimensions are enumerated',
               'generator names are single hex digits (kingdon\'s own restriction)',
               'reference closed form sign(I,J) = (-1)^{sum_{j in J} popcount(I>>(j+1))} * prod_{k in I&J} s_k, itself proved Clifford in (c)']
BOUNDS = {'quick': 'default bases d<=7 x start_index {0,1,2} all pairs (d=8: 6000 sampled pairs), custom bases exhaustive d<=2 + 40 sampled d=3..5 + named algebras (start index inferred from the labels); triples d<=3; (c) width 6; (d) all (p,q,r) d<=4, all explicit orderings d<=3, shifted-label custom bases, graded / cse=False configurations; 34 algebras checked after a twin (same (p,q,r) in another ordering, default vs custom basis, other start index; d up to 8) was built and used in the same process; algebras checked after a twin algebra was used in the same process; start indices that give a generator the label \'e\'; custom bases with hexadecimal letter labels (also in mixed case) and the zero-dimensional one',
          'thorough': 'd=8 all 65536 pairs, 400 sampled custom bases, triples d<=4, (c) width 8, (d) all (p,q,r) d<=6, orderings d<=4'}
OUTSIDE = ['d > 8', 'generator names that are not single hex digits', 'signature entries other than -1, 0, 1']
OPTS = {'rlimit': 400_000_000, 'canary_every': 3}
CHUNKS_PER_WORKER = 20
SPECIAL_KINDS = ('bv',)


def cases(tier, seed):
    rng = random.Random(seed * 7919 + 1)
    out = []
    # (a)+(b) symbolic signature
    maxd = 7
    for d in range(0, maxd + 1):
        for si in (0, 1, 2):
            if d + si > 15:
                continue
            out.append(dict(kind='symtable', d=d, start_index=si, basis=None, triples=(d <= (3 if tier == 'quick' else 4))))
    out.append(dict(kind='symtable', d=8, start_index=1, basis=None, triples=False, sample=(6000 if tier == 'quick' else 0)))
    if tier == 'thorough':
        out.append(dict(kind='symtable', d=8, start_index=0, basis=None, triples=False, sample=0))
    for d in (1, 2):
        for si in (0, 1, 3):
            for basis in pat.all_bases((d, 0, 0), start_index=si):
                out.append(dict(kind='symtable', d=d, start_index=si, basis=basis, triples=True))
    for i in range(40 if tier == 'quick' else 400):
        d = rng.choice((3, 3, 4, 4, 5))
        si = rng.choice((0, 1, 1, 2, 5))
        basis = pat.random_basis((d, 0, 0), rng, start_index=si)
        out.append(dict(kind='symtable', d=d, start_index=si, basis=basis, triples=(d <= (3 if tier == 'quick' else 4))))
    for name, d in (('2DPGA', 3), ('3DPGA', 4), ('STAP', 5)):
        out.append(dict(kind='symtable', d=d, named=name, start_index=0, basis=None, triples=(d <= 3)))
    # (d) concrete instantiation
    dmax = 4 if tier == 'quick' else 6
    for d in range(0, dmax + 1):
        for p, q, r in pat.pqr_all(d):
            for si in (None, 0, 2):
                out.append(dict(kind='concrete', cfg=dict(p=p, q=q, r=r, start_index=si), products=(d <= 3)))
    for d in range(1, (3 if tier == 'quick' else 4) + 1):
        for sig in pat.signatures_all(d):
            out.append(dict(kind='concrete', cfg=dict(signature=list(sig), start_index=rng.choice((None, 0, 1, 3))), products=(d <= 2)))
    for sig in ([1, -1, 0, 1, -1], [0, 0, 1, -1, 1, 1], [-1, 1, 1, 1, 0, 1, -1], [1, 1, 0, -1, -1, 1, 1, 0]):
        out.append(dict(kind='concrete', cfg=dict(signature=sig, start_index=None), products=False, sample=3000 if len(sig) > 6 else 0,
                        cayley_lazy=(len(sig) == 7 or tier == 'thorough')))
    for name in ('2DPGA', '3DPGA', 'STAP'):
        out.append(dict(kind='concrete', cfg=dict(name=name), products=(name != 'STAP')))
    # the one custom basis of the zero-dimensional algebra
    out.append(dict(kind='concrete', cfg=dict(p=0, basis=['e']), products=True))
    out.append(dict(kind='concrete', cfg=dict(signature=[], basis=['e']), products=True))
    # start indices for which a generator carries the label 'e' (14), the letter that also prefixes every blade name
    for cfg in (dict(p=3, start_index=12), dict(p=2, q=1, start_index=13), dict(p=4, start_index=11), dict(p=1, r=1, start_index=14), dict(p=3, r=1, start_index=12)):
        out.append(dict(kind='concrete', cfg=cfg, products=(sum(v for k, v in cfg.items() if k in 'pqr') <= 3)))
    # the option-dependent blade construction (graded mode builds basis blades differently): every algebra kingdon can construct
    for cfg in (dict(p=3, graded=True), dict(p=4, graded=True), dict(p=3, r=1, graded=True), dict(p=2, q=2, graded=True), dict(p=5, graded=True),
                dict(name='2DPGA', graded=True), dict(name='3DPGA', graded=True), dict(name='STAP', graded=True), dict(p=4, cse=False)):
        out.append(dict(kind='concrete', cfg=cfg, products=False, blade_products=True))
    for i in range(20 if tier == 'quick' else 200):
        d = rng.choice((2, 3, 3, 4))
        pqr = rng.choice(pat.pqr_all(d))
        out.append(dict(kind='concrete', cfg=dict(p=pqr[0], q=pqr[1], r=pqr[2], basis=pat.random_basis(pqr, rng)), products=(d <= 3)))
    # algebras that COEXIST in one process: same (p,q,r) with another signature ordering, default next to custom basis,
    # other start index, other dimension -- the first is built and used, then the second is checked (both orders)
    twins = [(dict(p=5, q=1, r=1), dict(signature=[1, 1, 1, 0, 1, -1, 1])), (dict(p=4, q=4, start_index=2), dict(signature=[1, -1] * 4, start_index=2)),
             (dict(p=6, r=1), dict(signature=[1, 1, 1, 0, 1, 1, 1])), (dict(p=2, q=1), dict(signature=[-1, 1, 1])), (dict(p=2, r=1), dict(name='2DPGA')),
             (dict(p=3, r=1), dict(name='3DPGA')), (dict(p=3), dict(p=3, basis=['e', 'e3', 'e2', 'e1', 'e23', 'e31', 'e12', 'e321'])),
             (dict(p=3, start_index=0), dict(p=3, start_index=1)), (dict(p=2, q=2), dict(p=3, q=1)), (dict(p=4, q=1), dict(name='STAP')),
             (dict(p=6, q=1), dict(q=1, p=6, start_index=0)), (dict(p=3, q=3, r=1), dict(p=3, q=3, r=1, graded=False, cse=False))]
    for A, B in twins:
        for first, second in ((A, B), (B, A)):
            dd = len(second['signature']) if 'signature' in second else ({'2DPGA': 3, '3DPGA': 4, 'STAP': 5}[second['name']] if 'name' in second else sum(v for k, v in second.items() if k in 'pqr'))
            out.append(dict(kind='concrete', cfg=second, before=[first], products=(dd <= 3), sample=(2500 if dd > 6 else 0)))
    for i in range(10 if tier == 'quick' else 100):
        d = rng.choice((2, 3, 3, 4))
        sig = [rng.choice((1, -1, 0)) for _ in range(d)]
        sig2 = sig[:]
        rng.shuffle(sig2)
        out.append(dict(kind='concrete', cfg=dict(signature=sig2), before=[dict(signature=sig), dict(p=sig.count(1), q=sig.count(-1), r=sig.count(0))], products=(d <= 3)))
    # custom bases whose labels do NOT start at the default start index (0 for r == 1, else 1)
    for i in range(24 if tier == 'quick' else 150):
        d = rng.choice((2, 2, 3, 3, 4))
        pqr = rng.choice([x for x in pat.pqr_all(d) if sum(1 for v in x if v) >= 2 or rng.random() < 0.3] or pat.pqr_all(d))
        default = 0 if pqr[2] == 1 else 1
        si = rng.choice([s_ for s_ in (0, 1, 2, 3, 7, 9, 10, 12) if s_ != default and s_ + d - 1 <= 15])
        basis = pat.random_basis(pqr, rng, start_index=si)
        out.append(dict(kind='concrete', cfg=dict(p=pqr[0], q=pqr[1], r=pqr[2], basis=basis), products=(d <= 3), expect_start=si))
    # ... and hexadecimal letter labels in MIXED case (kingdon's blade pattern admits a-f and A-F): 'B' sorts before 'a' as a string
    for i in range(10 if tier == 'quick' else 60):
        d = rng.choice((2, 2, 3, 3, 4))
        pqr = rng.choice([x for x in pat.pqr_all(d) if sum(1 for v in x if v) >= 2] or pat.pqr_all(d))
        si = rng.choice([s_ for s_ in (8, 9, 10, 11, 12) if s_ + d - 1 <= 15 and s_ + d - 1 >= 11])
        basis = pat.random_basis(pqr, rng, start_index=si)
        letters = sorted({ch for b in basis for ch in b[1:] if ch.isalpha()})
        # upper-case a non-empty proper subset of the letters; in half of the cases every letter but the smallest
        up = set(letters[1:]) if (i % 2 == 0 or len(letters) < 3) else set(rng.sample(letters, rng.randint(1, len(letters) - 1)))
        basis = ['e' + ''.join(ch.upper() if ch in up else ch for ch in b[1:]) for b in basis]
        out.append(dict(kind='concrete', cfg=dict(p=pqr[0], q=pqr[1], r=pqr[2], basis=basis), products=(d <= 3), expect_start=si))
    return out


# --------------------------------------------------------------------------- (a), (b)

def _build_sym_alg(desc, V):
    """Algebra whose sign table has been (re)computed by the real code on symbolic signature entries."""
    from kingdon import Algebra
    d = desc['d']
    names_sig = [V.var(f's{i}') for i in range(d)]          # s_i = square of the generator NAMED start_index+i
    if V.symbolic:
        for s in names_sig:
            sym.cur().assume(z3.Or(s.t == -1, s.t == 0, s.t == 1))
        if desc.get('named'):
            alg = Algebra.fromname(desc['named'])
        else:
            kw = dict(signature=[1] * d)
            if desc.get('basis'):
                kw['basis'] = list(desc['basis'])      # start index must be inferred from the labels
            else:
                kw['start_index'] = desc['start_index']
            alg = Algebra(**kw)
            if alg.start_index != desc['start_index']:
                return None, ('start-index', alg.start_index)
        if not hasattr(alg, '_prepare_signs'):
            return None, names_sig
        arr = np.empty(d, dtype=object)
        for i in range(d):
            arr[i] = names_sig[i]
        alg.signature = arr
        alg.signs = alg._prepare_signs()
        return alg, names_sig
    # concrete replay: the real constructor with that signature
    sig = [int(s) for s in names_sig]
    if desc.get('named'):
        # named algebras have a fixed signature; replay on it only if the model agrees, else emulate via basis
        base = Algebra.fromname(desc['named'])
        alg = Algebra(signature=sig, basis=list(base.basis), start_index=0)
    else:
        kw = dict(signature=sig)
        if desc.get('basis'):
            kw['basis'] = list(desc['basis'])
        else:
            kw['start_index'] = desc['start_index']
        alg = Algebra(**kw)
    return alg, sig


def _run_symtable(desc, V):
    alg, sig = _build_sym_alg(desc, V)
    if alg is None and isinstance(sig, tuple) and sig[0] == 'start-index':
        return [Fail('start-index', f'custom basis with labels starting at {desc["start_index"]}: the algebra uses start_index={sig[1]}', fkey='symtable|start-index')]
    if alg is None:
        return [Note('symtable', 'Algebra._prepare_signs not available (refactored?); symbolic-signature route skipped, concrete route (d) still runs')]
    d = desc['d']
    km = KMap(alg)          # name tables only
    R = RefAlg(sig, alg.start_index)
    claims = []
    N = 2 ** d
    pairs = None
    if desc.get('sample'):
        rng = random.Random(desc['sample'])
        pairs = [(rng.randrange(N), rng.randrange(N)) for _ in range(desc['sample'])]
        pairs += [(N - 1, N - 1), (1, 1), (N - 1, 1), (N >> 1, N >> 1)]
    else:
        pairs = itertools.product(range(N), repeat=2)
    T = alg.signs
    for I, J in pairs:
        sI, mI = km.key2ref[I]
        sJ, mJ = km.key2ref[J]
        sK, mK = km.key2ref[I ^ J]
        if mK != mI ^ mJ:
            claims.append(Fail(f'blade[{I},{J}]', f'key {I}^{J} names blade {alg.bin2canon[I ^ J]} which is not the product blade'))
            continue
        want = R.sign(mI, mJ) * (sI * sJ * sK)
        claims.append(Eq(f'T[{I},{J}]', T[I, J], want))
    # (b) relations directly on the table
    gens = [1 << i for i in range(d)]
    for gi in gens:
        name = alg.bin2canon[gi]
        claims.append(Eq(f'square[{name}]', T[gi, gi], sig[int(name[1:], 16) - alg.start_index]))
        for gj in gens:
            if gi < gj:
                claims.append(Eq(f'anticomm[{gi},{gj}]', T[gi, gj] + T[gj, gi], 0))
                claims.append(Eq(f'unit[{gi},{gj}]', T[gi, gj] * T[gi, gj], 1))
    # e_i e_j .. e_k folded through the table is +1 * the blade named e_ij..k
    if d <= 6:
        for K, name in alg.bin2canon.items():
            cur, s = 0, 1
            for ch in name[1:]:
                g = alg.canon2bin['e' + ch]
                s = s * T[cur, g]
                cur ^= g
            if cur != K:
                claims.append(Fail(f'chain[{name}]', f'generators of {name} multiply to key {cur}, not {K}'))
            else:
                claims.append(Eq(f'chain[{name}]', s, 1))
    if desc.get('triples'):
        for I, J, K in itertools.product(range(N), repeat=3):
            claims.append(Eq(f'assoc[{I},{J},{K}]', T[I, J] * T[I ^ J, K], T[J, K] * T[I, J ^ K]))
    return claims


# --------------------------------------------------------------------------- (d)

def _parse_cayley(s):
    if s == '0':
        return 0, None
    if s.startswith('-'):
        return -1, s[1:]
    return 1, s


def _touch(cfg):
    """construct another algebra first and use its tables (process-level history: module-level caches, shared dicts)."""
    other = make_alg(cfg)
    n = 2 ** other.d
    rng = random.Random(n)
    for _ in range(40):
        i, j = rng.randrange(n), rng.randrange(n)
        other.signs[i, j]
    ks = sorted({rng.randrange(n) for _ in range(3)})
    x = other.multivector(keys=tuple(ks), values=[1] * len(ks))
    x * x, ~x, x.hodge(), x ^ x
    return other


def _run_concrete(desc, V):
    keep = [_touch(c) for c in desc.get('before', [])]
    alg = make_alg(desc['cfg'])
    if desc.get('expect_start') is not None and alg.start_index != desc['expect_start']:
        return [Fail('start-index', f'basis labels start at {desc["expect_start"]} but the algebra uses start_index={alg.start_index}', fkey='concrete|start-index')]
    km = KMap(alg)
    R = km.ref
    d = alg.d
    N = 2 ** d
    claims = []
    if desc.get('sample'):
        rng = random.Random(desc['sample'])
        pairs = [(rng.randrange(N), rng.randrange(N)) for _ in range(desc['sample'])]
    else:
        pairs = list(itertools.product(range(N), repeat=2))
    for I, J in pairs:
        sI, mI = km.key2ref[I]
        sJ, mJ = km.key2ref[J]
        sK, mK = km.key2ref[I ^ J]
        claims.append(Eq(f'signs[{I},{J}]', int(alg.signs[I, J]), R.sign(mI, mJ) * sI * sJ * sK))
    if d <= 6 and not desc.get('sample'):
        cay = alg.cayley
        if len(cay) != N * N:
            claims.append(Fail('cayley:size', f'{len(cay)} entries, expected {N * N}'))
        for (eI, I), (eJ, J) in itertools.product(alg.canon2bin.items(), repeat=2):
            s, blade = _parse_cayley(cay[eI, eJ])
            claims.append(Eq(f'cayley-sign[{eI},{eJ}]', s, int(alg.signs[I, J])))
            if s and blade != alg.bin2canon[I ^ J]:
                claims.append(Fail(f'cayley-blade[{eI},{eJ}]', f'cayley says {cay[eI, eJ]}, product blade is {alg.bin2canon[I ^ J]}'))
    if d >= 7 and desc.get('cayley_lazy'):
        # lazily filled sign table (d > 6): the Cayley table is complete all the same, looked at BEFORE any sign was asked for
        # (a fresh algebra) -- sampled entries against the reference
        fresh = make_alg(desc['cfg'])
        cay = fresh.cayley
        if len(cay) != N * N:
            claims.append(Fail('cayley:size', f'{len(cay)} entries for d={d}, expected {N * N}', fkey='concrete|cayley-lazy|size'))
        rng_c = random.Random(d * 17 + 3)
        names = list(fresh.canon2bin.items())
        for _ in range(400):
            (eI, I), (eJ, J) = rng_c.choice(names), rng_c.choice(names)
            if (eI, eJ) not in cay:
                claims.append(Fail(f'cayley-lazy[{eI},{eJ}]:missing', f'cayley has no entry for ({eI}, {eJ}) in d={d}', fkey='concrete|cayley-lazy|missing'))
                break
            s, blade = _parse_cayley(cay[eI, eJ])
            sI, mI = km.key2ref[I]
            sJ, mJ = km.key2ref[J]
            sK, mK = km.key2ref[I ^ J]
            claims.append(Eq(f'cayley-lazy-sign[{eI},{eJ}]', s, R.sign(mI, mJ) * sI * sJ * sK))
            if s and blade != fresh.bin2canon[I ^ J]:
                claims.append(Fail(f'cayley-lazy-blade[{eI},{eJ}]', f'cayley says {cay[eI, eJ]}, product blade is {fresh.bin2canon[I ^ J]}', fkey='concrete|cayley-lazy|blade'))
    # every spelling of every blade
    if d <= 5:
        for K, name in alg.bin2canon.items():
            w = name[1:]
            if len(w) > 4:
                perms = [tuple(w), tuple(reversed(w)), tuple(w[1:] + w[:1]), tuple(w[:2][::-1] + w[2:])]
            else:
                perms = itertools.permutations(w)
            for pm in perms:
                sp = 'e' + ''.join(pm)
                s_ref, k_ref = km.spelling(sp)
                b = alg.blades[sp]
                c = coeffs(b)
                claims.append(Eq(f'blades[{sp}]', c.get(K, 0), s_ref))
                if k_ref != K:
                    claims.append(Fail(f'blades[{sp}]:key', f'spelling {sp} resolves to key {k_ref}, expected {K}'))
                for k, v in c.items():
                    if k != K:       # graded mode stores the whole grade: every other blade must carry 0
                        claims.append(Eq(f'blades-other[{sp},{k}]', v, 0))
    if d >= 7:
        # lazily created blades: whatever spelling is asked for FIRST, every later spelling has its own sign
        rng_ = random.Random(d * 13 + alg.start_index)
        ks = [k for k in alg.bin2canon if bin(k).count('1') in (2, 3)]
        for K in rng_.sample(ks, 6):
            w = alg.bin2canon[K][1:]
            odd = w[1] + w[0] + w[2:]
            for sp in ('e' + odd, 'e' + w, 'e' + odd, 'e' + w[::-1]):
                s_ref, k_ref = km.spelling(sp)
                c = coeffs(alg.blades[sp])
                claims.append(Eq(f'lazy-blades[{sp}]', c.get(K, 0), s_ref))
            prod = alg.blades['e' + w[0]]
            for ch in w[1:]:
                prod = prod * alg.blades['e' + ch]
            pc = coeffs(prod)
            claims.append(Eq(f'lazy-blades[{w}]=ordered-product', coeffs(alg.blades['e' + w]).get(K, 0), pc.get(K, 0)))
    if desc.get('blade_products') and d <= 5:
        # products of basis blades through the public operator (graded blades store whole grades)
        names = list(alg.canon2bin.items())
        rng_ = random.Random(d)
        pairs_ = list(itertools.product(names, repeat=2)) if d <= 3 else rng_.sample(list(itertools.product(names, repeat=2)), 120)
        for (eI, I), (eJ, J) in pairs_:
            try:
                prod = coeffs(alg.blades[eI] * alg.blades[eJ])
            except ValueError:
                continue          # graded mode cannot store this product (C13's known finding), not a table question
            for k in set(prod) | {I ^ J}:
                claims.append(Eq(f'blade-product[{eI},{eJ},{k}]', prod.get(k, 0), int(alg.signs[I, J]) if k == I ^ J else 0))
    if desc.get('products'):
        for (eI, I), (eJ, J) in itertools.product(alg.canon2bin.items(), repeat=2):
            prod = coeffs(alg.blades[eI] * alg.blades[eJ])
            want = int(alg.signs[I, J])
            claims.append(Eq(f'blade-product[{eI},{eJ}]', prod.get(I ^ J, 0), want))
            for k, v in prod.items():
                if k != I ^ J:
                    claims.append(Eq(f'blade-product-other[{eI},{eJ}]', v, 0))
    return claims


def run_case(desc, V):
    if desc['kind'] == 'symtable':
        return _run_symtable(desc, V)
    return _run_concrete(desc, V)


# --------------------------------------------------------------------------- (c)

def _parity(x, W):
    r = z3.Extract(0, 0, x)
    for i in range(1, W):
        r = r ^ z3.Extract(i, i, x)
    return r


def refsign_bv(I, J, neg, zero, W):
    """(is_zero: Bool, is_negative: 1-bit BV) of e_I e_J; neg / zero: masks of generators squaring to -1 / 0."""
    sw = z3.BitVecVal(0, 1)
    for j in range(W):
        bj = z3.Extract(j, j, J)
        sw = sw ^ (bj & _parity(z3.LShR(I, j + 1), W))
    common = I & J
    sw = sw ^ _parity(common & neg, W)
    return (common & zero) != 0, sw


def _ref_lemmas(W):
    out = []
    I, J, K, neg, zero = z3.BitVecs('I J K neg zero', W)
    dis = (neg & zero) == 0
    z1, n1 = refsign_bv(I, J, neg, zero, W)
    z2, n2 = refsign_bv(I ^ J, K, neg, zero, W)
    z3_, n3 = refsign_bv(J, K, neg, zero, W)
    z4, n4 = refsign_bv(I, J ^ K, neg, zero, W)
    lz, rz = z3.Or(z1, z2), z3.Or(z3_, z4)
    assoc_neg = z3.And(dis, z3.Or(lz != rz, z3.And(z3.Not(lz), (n1 ^ n2) != (n3 ^ n4))))
    out.append(bv.lemma(PROP, f'reference-associative(W={W})', assoc_neg, {}, lambda v: 'reference closed form is not associative', extra=dict(W=W), kind='ref-lemma'))
    i, j = z3.BitVecs('i j', W)
    onehot = lambda x: z3.And(x != 0, x & (x - 1) == 0)
    za, na = refsign_bv(i, j, neg, zero, W)
    zb, nb = refsign_bv(j, i, neg, zero, W)
    zs, ns = refsign_bv(i, i, neg, zero, W)
    gens_neg = z3.And(dis, onehot(i), onehot(j), i != j,
                      z3.Or(za, zb, na == nb, zs != ((i & zero) != 0), z3.And(z3.Not(zs), (ns == 1) != ((i & neg) != 0))))
    out.append(bv.lemma(PROP, f'reference-generators(W={W})', gens_neg, {}, lambda v: 'reference generators do not square/anticommute correctly', extra=dict(W=W), kind='ref-lemma'))
    # validate the BV transcription against the Python reference on all blade pairs and signatures, d = 3
    t0 = time.time()
    res = _new_result(dict(kind='ref-lemma', lemma='bv-transcription==python-reference(d<=3, all signatures)', W=3))
    res['nontrivial'] = True
    bad = 0
    n = 0
    for d in (2, 3):
        Iv, Jv, nv, zv = z3.BitVecs('I J neg zero', d)
        zt, nt = refsign_bv(Iv, Jv, nv, zv, d)
        for sig in itertools.product((1, -1, 0), repeat=d):
            R = RefAlg(list(sig), 1)
            negm = sum(1 << k for k in range(d) if sig[k] == -1)
            zerom = sum(1 << k for k in range(d) if sig[k] == 0)
            for a in range(2 ** d):
                for b in range(2 ** d):
                    sub = [(Iv, z3.BitVecVal(a, d)), (Jv, z3.BitVecVal(b, d)), (nv, z3.BitVecVal(negm, d)), (zv, z3.BitVecVal(zerom, d))]
                    zz = z3.is_true(z3.simplify(z3.substitute(zt, *sub)))
                    nn = z3.simplify(z3.substitute(nt, *sub)).as_long()
                    want = R.sign(a, b)
                    got = 0 if zz else (-1 if nn else 1)
                    n += 1
                    if got != want:
                        bad += 1
    res['n_eq'] = res['n_eq_nontrivial'] = n
    if bad:
        res['status'] = 'error'
        res['notes'].append(f'{bad} disagreements between the bit-vector transcription and kv.ref')
    res['wall_s'] = time.time() - t0
    out.append(res)
    return out


def extra(tier, seed, jobs):
    return _ref_lemmas(6 if tier == 'quick' else 8)


def replay_special(viol):
    return False
