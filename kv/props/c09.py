"""
C09 -- results depend only on the operands, never on earlier operations.

Bounded histories on ONE algebra object, with symbolic operand values, each result compared by
the solver with the result of the same call on a FRESH algebra (for all coefficient values):

 perm-history   the cache state that can influence a call is the per-operator entry for its
                ordered key tuple and the name-space entries under the NAMES of the functions it
                (or a compiled registered function) calls.  Key tuples that are permutations of
                each other are the candidates for sharing a generated-function name, so for each
                (operator, key set) ALL enumerated orderings are called first (filling the caches)
                and then each is called again and compared with a fresh algebra -- through the
                plain route, an algebra with a ``wrapper``, ``alg.register(f)`` and
                ``alg.register(symbolic=True)(f)``.
 mixed-history  seeded random histories (length <= 3 quick / 4 thorough) over an alphabet of
                operators x patterns x routes, including failing calls (AlgebraError, generation-
                time ZeroDivisionError, a registered function that raises); after EACH step the
                result is compared with a fresh algebra.
 every case     also proves that no operand and no previously returned multivector changed.

 object-history a pre-history on one multivector OBJECT (calls, operand use, inspection of cached properties)
                before a multivector derived from it (map, filter, grade, ...) is called / used.
 thread-schedules  two real threads make first calls on one fresh algebra; kv/sched.py hands a baton around so
                that exactly one runs, and enumerates depth-first EVERY schedule with at most k preemptions
                (k = 1 quick, 2 thorough) at the line boundaries of kingdon/operator_dict.py, do_codegen,
                do_compile, lambdify, MultiVector.__call__/_callable and Algebra.register; operand values are
                solver terms in every schedule.  Scenarios: same operator and pattern, permuted patterns
                (shared function name), two operators of which one generates the other, calls of one symbolic
                multivector, first calls of one registered function; routes plain / wrapper.

Outside: preemption between bytecodes inside a line and inside functions that are not watched; more
than two threads; more than k preemptions.
"""
from __future__ import annotations

import itertools
import random

from ..core import Eq, Fail, Note
from .. import pat, ops
from ..kapi import get_alg, make_alg, mv, coeffs, mv_eq_claims, eq_claims, kmap

PROP = 'C09'
LEVEL = 'other'
ENGINES = ['A']
FUNCTIONS = ['OperatorDict.__getitem__/__call__/_call_binary (func vs numspace[func.__name__])', 'UnaryOperatorDict.__call__',
             'Registry.__getitem__/__call__', 'do_compile (glue calling generated functions by name)', 'do_codegen (function naming)',
             'Algebra.register', 'TapeRecorder.binary_operator/unary_operator', 'MultiVector.map/filter/grade/__call__/_callable/issymbolic/free_symbols (cached properties)']
ASSUMPTIONS = ['operand values symbolic; histories/patterns/routes enumerated; thread schedules enumerated under a preemption bound (context-bounded, CHESS style) with preemption at line boundaries of the watched functions',
               ]
BOUNDS = {'quick': 'perm-histories: 14 binary + 8 unary operators x key sets of <=3 blades in all orderings (d=2), samples in d=3 and d=5,6 (two-digit keys), routes plain / wrapper (wraps, closure) / register / register(symbolic) / re-entrant wrapper; name classes over an ambiguous-spelling key pool (d=5); swapped-operand histories incl. d=7; operator sweeps (29 operators, two passes); flaky wrapper; 120 mixed histories of length <=3; 90 multivector-object histories; 14 two-thread scenarios x all schedules with <=1 preemption (about 110-400 schedules each, budget 400); blade-spelling lookup sequences (getattr / blades[...] / keyword construction, grades 2-4, d=3,4)',
          'thorough': 'the same families with 5-10x the samples; 8000 mixed histories of length <=5; 1200 object histories; 24 two-thread scenarios x all schedules with <=2 preemptions (budget 6000 schedules each)'}
OUTSIDE = ['thread schedules with more than 2 preemptions (1 in the quick tier), more than two threads, preemption inside a source line or inside functions other than the cache / generation drivers', 'histories longer than the bound']
LABEL_MOVEMENT = True
RULE = 'histories are enumerated/seeded deterministically; a case is non-trivial when it executed a history on symbolic operands and compared at least one result with a fresh algebra (on a correct tree most comparisons are between syntactically identical solver terms, the rest are z3 queries)'
OPTS = {'rlimit': 200_000_000, 'canary_every': 10}
EXPLANATION = __doc__

BIN_OPS = ['gp', 'op', 'ip', 'lc', 'rc', 'sp', 'cp', 'acp', 'rp', 'add', 'sub', 'sw', 'proj', 'div']
UN_OPS = ['neg', 'reverse', 'involute', 'conjugate', 'hodge', 'unhodge', 'normsq', 'inv']
ROUTES = ['plain', 'wrapper', 'register', 'register-sym']


OBJ_PRE = ['call', 'call-other-values', 'partial-call', 'operand', 'inspect', 'derive-first', 'str']
OBJ_POST = ['call', 'call-positional', 'operand-then-call', 'call-twice', 'call-no-symbols']
OBJ_DERIVE = {
    'map2': lambda x: x.map(lambda v: 2 * v),
    'map-plus': lambda x: x.map(lambda v: v + 1),
    'map-kv': lambda x: x.map(lambda k, v: (k + 2) * v),
    'filter-all': lambda x: x.filter(lambda v: True),
    'filter-kv': lambda x: x.filter(lambda k, v: k != x.keys()[0]),
    'neg': lambda x: -x,
    'reverse': lambda x: ~x,
    'top-grade': lambda x: x.grade(x.grades[-1]),
    'all-grades': lambda x: x.grade(*x.grades),
    'full': lambda x: x.asfullmv(),
    'full-binary': lambda x: x.asfullmv(canonical=False),
    'times2': lambda x: x * 2,
    'plus-self': lambda x: x + x,
    'square': lambda x: x * x,
    'self': lambda x: x,
}


def cases(tier, seed):
    rng = random.Random(seed * 7919 + 9)
    out = []
    cfgs2 = [dict(p=2), dict(p=1, q=1), dict(p=1, r=1)]
    # --- perm histories, d = 2
    keysets = [ks for n in (2, 3) for ks in itertools.combinations(range(4), n)]
    if tier == 'thorough':
        keysets.append((0, 1, 2, 3))
    for route in ROUTES:
        for op in BIN_OPS:
            if route == 'register-sym' and op in ('div', 'sw', 'proj') and tier == 'quick':
                continue
            for ks in (keysets if route in ('wrapper', 'register') else rng.sample(keysets, 3)):
                cfg = rng.choice(cfgs2)
                kb = list(rng.choice(keysets))
                rng.shuffle(kb)
                perms = list(itertools.permutations(ks))
                if len(perms) > 6:
                    perms = rng.sample(perms, 6)
                out.append(dict(kind='perm-history', cfg=cfg, route=route, op=op, arity=2,
                                perms=[list(p) for p in perms], kb=kb, permute_b=bool(rng.random() < 0.5)))
        for op in UN_OPS:
            for ks in (keysets if route in ('wrapper', 'register') else rng.sample(keysets, 2)):
                cfg = rng.choice(cfgs2[:2]) if op == 'inv' else rng.choice(cfgs2)
                perms = list(itertools.permutations(ks))
                if len(perms) > 6:
                    perms = rng.sample(perms, 6)
                out.append(dict(kind='perm-history', cfg=cfg, route=route, op=op, arity=1, perms=[list(p) for p in perms]))
    # --- perm histories, d = 3
    for _ in range(30 if tier == 'quick' else 2000):
        cfg = rng.choice([dict(p=3), dict(p=2, r=1), dict(p=2, q=1)])
        n = rng.choice((2, 3, 4))
        ks = rng.sample(range(8), n)
        perms = [list(p) for p in itertools.permutations(ks)]
        perms = rng.sample(perms, min(len(perms), 4))
        kb = rng.sample(range(8), rng.choice((1, 2, 3)))
        op = rng.choice(BIN_OPS[:-1])
        out.append(dict(kind='perm-history', cfg=cfg, route=rng.choice(ROUTES[:3]), op=op, arity=2, perms=perms, kb=kb,
                        permute_b=bool(rng.random() < 0.5)))
    # --- perm histories in d = 5, 6: keys of two digits (any positional/hex encoding of the key order must stay injective)
    for _ in range(16 if tier == 'quick' else 120):
        d = rng.choice((5, 5, 6))
        cfg = dict(p=d) if rng.random() < 0.5 else dict(p=d - 1, r=1)
        lo = rng.sample(range(0, 16), 2)
        hi = rng.sample(range(16, 2 ** d), rng.choice((1, 2)))
        ks = (lo + hi)[:3]
        perms = [list(p) for p in itertools.permutations(ks)]
        kb = [rng.randrange(2 ** d)]
        op = rng.choice(['gp', 'op', 'ip', 'add', 'sub', 'cp'])
        un = rng.choice(['neg', 'reverse', 'involute', 'normsq'])
        route = rng.choice(['wrapper', 'register'])
        out.append(dict(kind='perm-history', cfg=cfg, route=route, op=op, arity=2, perms=perms, kb=kb, permute_b=False))
        out.append(dict(kind='perm-history', cfg=cfg, route=route, op=un, arity=1, perms=perms))
    # --- name classes: ordered key tuples over a pool whose decimal/hex spellings are concatenations of
    #     each other (1,0 | 16=0x10 ; 1,1 | 17=0x11=11 ...): whatever encodes the key order in a
    #     generated-function name must be injective, or the members of a name class must be equivalent
    for cfg in (dict(p=5), dict(p=4, r=1)) + ((dict(p=6),) if tier == 'thorough' else ()):
        for op, ar in (('neg', 1), ('reverse', 1), ('add', 2), ('gp', 2)):
            out.append(dict(kind='name-classes', cfg=cfg, op=op, arity=ar, pool=[0, 1, 2, 16, 17, 18, 10, 11, 26, 33][: (10 if tier == 'thorough' else 8)],
                            maxlen=3, kb=[1, 2]))
    # --- re-entrancy: a wrapper that itself uses the algebra while a function is being wrapped
    for op in BIN_OPS[:11]:
        ks = rng.choice(keysets)
        perms = [list(p) for p in itertools.permutations(ks)][:4]
        out.append(dict(kind='perm-history', cfg=rng.choice(cfgs2), route='reentrant', op=op, arity=2, perms=perms, kb=[0, 3], permute_b=True))
    for op in UN_OPS[:7]:
        out.append(dict(kind='perm-history', cfg=rng.choice(cfgs2), route='reentrant', op=op, arity=1, perms=[[0, 3], [3, 0]]))
    # --- swapped operands: op(a, b) then op(b, a) on one algebra (a result must never be derived from the
    #     cache entry / table entry of the mirrored call), incl. d = 7 where the sign table is filled lazily
    for cfg in cfgs2 + [dict(p=3), dict(p=2, r=1), dict(p=7), dict(p=4, q=2, r=1)]:
        d = sum(cfg.values())
        order = pat.canon_order(d, 0 if cfg.get('r') == 1 else 1)
        grades = [[k for k in order if bin(k).count('1') == g][:4] for g in range(min(d, 4) + 1)]
        for op in BIN_OPS[:11]:
            for _ in range(2 if tier == 'quick' else 8):
                ga, gb = rng.sample(range(len(grades)), 2)
                ka, kb = list(grades[ga]), list(grades[gb])
                if rng.random() < 0.5:
                    ka = [rng.choice(grades[ga]), rng.choice(grades[gb])]
                out.append(dict(kind='swap-history', cfg=cfg, op=op, ka=ka, kb=kb, route=rng.choice(['plain', 'plain', 'wrapper'])))
    # --- algebras derived from one another with dataclasses.replace (the pinned suite derives a graded algebra
    #     this way): operations on the derived algebra must not influence the original, and vice versa
    for _ in range(24 if tier == 'quick' else 150):
        base, change = rng.choice([(dict(p=2), dict(signature=[1, -1])), (dict(p=2), dict(signature=[0, 1])), (dict(p=3), dict(signature=[1, -1, 1])),
                                   (dict(p=1, q=1), dict(signature=[-1, 1])), (dict(p=2), dict(cse=False)), (dict(p=2, r=1), dict(signature=[1, 1, 0]))])
        d = sum(base.values())
        out.append(dict(kind='derived-algebra', cfg=base, change=change, op=rng.choice(BIN_OPS[:11] + UN_OPS[:7]),
                        ka=rng.sample(range(2 ** d), 2), kb=rng.sample(range(2 ** d), 2), wrapper=rng.choice(['identity', 'closure', None])))
    # --- operator sweeps: EVERY operator on the same operands, then every one again (two operators must
    #     never share a generated-function name)
    for route in ('wrapper', 'register'):
        for cfg in cfgs2 + [dict(p=3), dict(p=2, r=1), dict(p=2, q=1)]:
            d = sum(cfg.values())
            for _ in range(3 if tier == 'quick' else 12):
                ka = rng.sample(range(2 ** d), rng.choice((2, 3)))
                kb = rng.sample(range(2 ** d), rng.choice((1, 2, 3)))
                out.append(dict(kind='op-sweep', cfg=cfg, route=route, ka=ka, kb=kb))
    # --- a wrapper (JIT) that fails once: the failed call must leave no trace
    for _ in range(20 if tier == 'quick' else 100):
        cfg = rng.choice(cfgs2 + [dict(p=3)])
        d = sum(cfg.values())
        out.append(dict(kind='flaky-wrapper', cfg=cfg, fail_at=rng.choice((1, 1, 2, 3)), op=rng.choice(BIN_OPS[:11] + UN_OPS[:6]),
                        ka=rng.sample(range(2 ** d), 2), kb=rng.sample(range(2 ** d), 2)))
    # --- mixed histories
    n = 120 if tier == 'quick' else 8000
    L = 3 if tier == 'quick' else 5
    for i in range(n):
        out.append(dict(kind='mixed-history', cfg=rng.choice(cfgs2 + [dict(p=3), dict(p=2, r=1)]), hseed=rng.randrange(10 ** 9),
                        length=rng.randint(2, L), wrapper=bool(rng.random() < 0.5)))
    # --- registered functions that share a Python __name__ (closures of one factory, a user function called div / sqrt ...)
    for scenario in ('closures', 'closures-nested', 'closures-symbolic', 'named-div', 'named-sqrt', 'named-custom', 'named-codegen_gp', 'redefined', 'name-tail-digits',
                     'registered-twice'):
        for wrapped in (False, True):
            for cfg in (cfgs2 if tier == 'thorough' else cfgs2[:2]):
                out.append(dict(kind='same-name', cfg=cfg, scenario=scenario, wrapped=wrapped, ka=rng.sample(range(4), 2), kb=rng.sample(range(4), 2)))
    # --- the same, in a FRESH interpreter (the serial numbers of registrations are process-wide): function names ending in
    #     digits, twelve registrations, non-canonical key orders -- the pieces of a generated name must not be confusable
    for use_wrapper in (False, True):
        for variant in ('scale', 'coefficient'):
            out.append(dict(kind='fresh-process-names', use_wrapper=use_wrapper, variant=variant))
    # --- two threads: every schedule with at most k preemptions at line boundaries of the cache / generation drivers
    scen = [('same', 'gp'), ('same', 'add'), ('same', 'sw'), ('permuted', 'gp'), ('permuted', 'sub'), ('permuted', 'op'), ('two-ops', 'sw'), ('two-ops', 'proj'),
            ('same', 'inv'), ('permuted', 'reverse'), ('symbolic-call', 'gp'), ('registered', 'gp'), ('registered', 'sw')]
    for scenario, op in (scen if tier == 'thorough' else scen[:2] + scen[3:5] + scen[6:7] + scen[9:12]):
        for route in (('plain', 'wrapper') if scenario not in ('symbolic-call', 'registered') else ('plain',)):
            cfg = rng.choice(cfgs2)
            out.append(dict(kind='thread-schedules', cfg=cfg, scenario=scenario, op=op, route=route, ka=rng.sample(range(4), 2), kb=rng.sample(range(4), 2),
                            max_preempt=1 if tier == 'quick' else 2, max_schedules=400 if tier == 'quick' else 6000, heavy=True))
    # --- histories on a multivector OBJECT: earlier calls / uses / inspections of x must not leak into
    #     multivectors derived from x (map, filter, grade, asfullmv, negation ...) nor into later calls of x
    for i in range(90 if tier == 'quick' else 1200):
        cfg = rng.choice(cfgs2 + [dict(p=3), dict(p=2, r=1)])
        d = sum(cfg.values())
        out.append(dict(kind='object-history', cfg=dict(cfg, wrapper='identity') if rng.random() < 0.25 else cfg,
                        ka=rng.sample(range(2 ** d), rng.choice((1, 2, 2, 3))),
                        pre=[rng.choice(OBJ_PRE) for _ in range(rng.randint(1, 3))], derive=rng.choice(sorted(OBJ_DERIVE)),
                        post=[rng.choice(OBJ_POST) for _ in range(rng.randint(1, 2))], numeric=bool(rng.random() < 0.3)))
    # 12. blade SPELLINGS looked up in sequence (x.e321, alg.blades['e213'], e312=... construction): the sign of one spelling
    #     must not depend on which other spelling of the same blade was resolved before (seed C09m)
    for i in range(24 if tier == 'quick' else 300):
        cfg = rng.choice([dict(p=3), dict(p=2, q=1), dict(p=1, q=2), dict(p=4), dict(p=3, q=1), dict(p=2, q=2)])   # (generators numbered from 1)
        d = sum(cfg.values())
        blade = rng.sample(range(1, d + 1), rng.choice((3, 3, min(4, d), 2)))
        perms = [list(q) for q in itertools.permutations(blade)]
        seq = [rng.choice(perms) for _ in range(rng.randint(2, 5))]
        if i % 2 == 0 and len(blade) >= 3:          # directed: an odd spelling first, then an even one
            srt = sorted(blade)
            seq = [[srt[1], srt[0]] + srt[2:], srt[1:] + srt[:1] if len(srt) == 3 else [srt[1], srt[0], srt[3], srt[2]]] + seq[:2]
        out.append(dict(kind='spelling-history', cfg=cfg, seq=seq, how=[rng.choice(('getattr', 'blades', 'kwargs')) for _ in seq]))
    return out


# --------------------------------------------------------------------------- registered expressions

def _make_reg(alg, op, arity, symbolic):
    """register `def f(x[, y]): return x <op> y` with the algebra (a def: lambdas have no valid name)."""
    ns = {}
    if arity == 2:
        infix, meth = ops.BINARY[op]
        src = f'def reg_{op}(x, y):\n    return x.{meth}(y)\n'
    else:
        infix, meth = ops.UNARY[op]
        src = f'def reg_{op}(x):\n    return x.{meth}()\n'
    exec(src, ns)
    f = ns[f'reg_{op}']
    return alg.register(f, symbolic=symbolic) if symbolic else alg.register(f)


def _call(alg, route, op, arity, args, regs):
    if route in ('plain', 'wrapper'):
        return ops.call_binary(op, *args, route='alg') if arity == 2 else ops.call_unary(op, args[0], route='alg')
    key = (op, route)
    if key not in regs:
        regs[key] = _make_reg(alg, op, arity, symbolic=(route == 'register-sym'))
    return regs[key](*args)


def _fresh_result(cfg, op, arity, args):
    """the same call on a freshly created algebra (same configuration, no wrapper), same coefficient terms."""
    from kingdon.multivector import MultiVector
    f = make_alg({k: v for k, v in cfg.items() if k != 'wrapper'})
    fargs = [MultiVector.fromkeysvalues(f, tuple(a.keys()), list(a.values())) for a in args]
    return ops.call_binary(op, *fargs, route='alg') if arity == 2 else ops.call_unary(op, fargs[0], route='alg')


def _snapshot(mvs):
    return [(m, tuple(m.keys()), list(m.values())) for m in mvs]


def _unchanged_claims(tag, snaps):
    out = []
    for i, (m, keys, vals) in enumerate(snaps):
        if tuple(m.keys()) != keys or len(m.values()) != len(vals):
            out.append(Fail(f'{tag}:mutated-keys[{i}]', f'keys changed from {keys} to {tuple(m.keys())}', fkey='mutation|keys'))
            continue
        for j, (v0, v1) in enumerate(zip(vals, m.values())):
            out.append(Eq(f'{tag}:unchanged[{i},{j}]', v1, v0, fkey='mutation|values'))
    return out


def run_case(desc, V):
    if desc['kind'] == 'perm-history':
        return _run_perm(desc, V)
    if desc['kind'] == 'op-sweep':
        return _run_sweep(desc, V)
    if desc['kind'] == 'name-classes':
        return _run_names(desc, V)
    if desc['kind'] == 'swap-history':
        return _run_swap(desc, V)
    if desc['kind'] == 'derived-algebra':
        return _run_derived(desc, V)
    if desc['kind'] == 'flaky-wrapper':
        return _run_flaky(desc, V)
    if desc['kind'] == 'object-history':
        return _run_object(desc, V)
    if desc['kind'] == 'same-name':
        return _run_same_name(desc, V)
    if desc['kind'] == 'fresh-process-names':
        return _run_fresh_names(desc)
    if desc['kind'] == 'thread-schedules':
        return _run_threads(desc, V)
    if desc['kind'] == 'spelling-history':
        return _run_spelling(desc, V)
    return _run_mixed(desc, V)


def _run_spelling(desc, V):
    """Each lookup of a (possibly non-canonical) blade spelling on a USED algebra equals the same lookup on a fresh algebra and
    the sign of the permutation that sorts the spelling times the stored coefficient."""
    def parity(sp):
        inv = sum(1 for i in range(len(sp)) for j in range(i + 1, len(sp)) if sp[i] > sp[j])
        return -1 if inv % 2 else 1

    def look(alg, x, sp, how):
        nm = 'e' + ''.join(str(g) for g in sp)
        if how == 'getattr':
            return getattr(x, nm)
        if how == 'blades':
            b = alg.blades[nm]
            return list(b.values())[0]
        m = alg.multivector(**{nm: 1})
        return list(m.values())[0]

    used = make_alg(desc['cfg'])
    out = []
    for step, (sp, how) in enumerate(zip(desc['seq'], desc['how'])):
        key = sum(1 << (g - 1) for g in sp)
        res = []
        for alg in (used, make_alg(desc['cfg'])):
            x = mv(alg, V, 'x', [0, key, 1])
            res.append(look(alg, x, sp, how))
        want = parity(sp) * (V.var(f'x_{key}') if how == 'getattr' else 1)
        out.append(Eq(f'spelling[{step}]:{how}:used=fresh', res[0], res[1], fkey=f'spelling|{how}|history'))
        out.append(Eq(f'spelling[{step}]:{how}:sign', res[0], want, fkey=f'spelling|{how}|sign'))
    return out


def _run_names(desc, V):
    cfg = dict(desc['cfg'], wrapper='identity')
    alg = make_alg(cfg)
    op, ar = desc['op'], desc['arity']
    opd = getattr(alg, op)
    pool = [k for k in desc['pool'] if k < 2 ** alg.d]
    classes = {}
    for n in range(2, desc['maxlen'] + 1):
        for ks in itertools.permutations(pool, n):
            key = (tuple(ks), tuple(desc['kb'])) if ar == 2 else tuple(ks)
            keys_out, func = opd[key]
            classes.setdefault(func.__name__, []).append(tuple(ks))
    claims = [Note('nontrivial', '')]
    shared = {n: m for n, m in classes.items() if len(m) > 1}
    claims.append(Eq('names-enumerated', len(classes) > 0, True))
    checked = 0
    for name, members in sorted(shared.items()):
        if checked >= 12:
            break
        A, B = members[0], members[1]
        checked += 1
        xa, xb = mv(alg, V, f'A{checked}', A), mv(alg, V, f'B{checked}', B)
        y = mv(alg, V, f'y{checked}', desc['kb'])
        seq = [xa, xb, xa]
        for j, x in enumerate(seq):
            args = [x, y] if ar == 2 else [x]
            r = _call(alg, 'wrapper', op, ar, args, {})
            want = _fresh_result(desc['cfg'], op, ar, args)
            claims += mv_eq_claims(f'{name}:{A}/{B}#{j}', r, coeffs(want), fkey='name-classes|shared-name-not-equivalent')
    return claims


def _run_derived(desc, V):
    import dataclasses
    from kingdon.multivector import MultiVector
    cfg = dict(desc['cfg'])
    if desc.get('wrapper'):
        cfg['wrapper'] = desc['wrapper']
    base = make_alg(cfg)
    change = dict(desc['change'])
    der = dataclasses.replace(base, **change)
    # what a freshly CONSTRUCTED algebra with the derived configuration computes
    fresh_cfg = {k: v for k, v in desc['cfg'].items()}
    if 'signature' in change:
        fresh_cfg = dict(signature=change['signature'], start_index=base.start_index)
    else:
        fresh_cfg.update(change)
    op = desc['op']
    ar = 2 if op in BIN_OPS else 1
    claims = []
    for i, alg in enumerate((base, der, base, der)):
        a = mv(alg, V, f'a{i}', desc['ka'])
        b = mv(alg, V, f'b{i}', desc['kb'])
        args = [a, b] if ar == 2 else [a]
        fcfg = desc['cfg'] if alg is base else fresh_cfg
        try:
            want = _fresh_result(fcfg, op, ar, args)
        except ZeroDivisionError:
            want = None
        try:
            r = _call(alg, 'plain', op, ar, args, {})
        except ZeroDivisionError:
            r = None
        if (r is None) != (want is None):
            claims.append(Fail(f'raise-mismatch[{i}]', 'raise behaviour differs from a freshly constructed algebra', fkey='derived-algebra|raise'))
        elif r is not None:
            claims += mv_eq_claims(f'call[{i}]', r, coeffs(want), fkey=f'derived-algebra|{"wrapper" if desc.get("wrapper") else "plain"}')
    claims.append(Eq('reached', 1, 1))
    return claims


def _run_swap(desc, V):
    cfg = dict(desc['cfg'])
    route = desc['route']
    if route == 'wrapper':
        cfg['wrapper'] = 'closure'
    alg = make_alg(cfg)
    op = desc['op']
    a, b = mv(alg, V, 'a', desc['ka']), mv(alg, V, 'b', desc['kb'])
    claims = []
    snaps = _snapshot([a, b])
    for i, args in enumerate(([a, b], [b, a], [a, b], [b, a])):
        try:
            want = _fresh_result(desc['cfg'], op, 2, args)
        except ZeroDivisionError:
            continue
        try:
            r = _call(alg, route, op, 2, args, {})
        except ZeroDivisionError:
            claims.append(Fail(f'raise-mismatch[{i}]', 'history raised ZeroDivisionError, fresh algebra returned', fkey='swap-history|raise'))
            continue
        claims += mv_eq_claims(f'call[{i}]', r, coeffs(want), fkey=f'swap-history|route={route}')
    claims += _unchanged_claims('swap', snaps)
    claims.append(Eq('reached', 1, 1))
    return claims


def _run_sweep(desc, V):
    cfg = dict(desc['cfg'])
    route = desc['route']
    if route == 'wrapper':
        cfg['wrapper'] = 'identity' if len(desc['ka']) % 2 else 'closure'
    alg = make_alg(cfg)
    regs = {}
    a = mv(alg, V, 'a', desc['ka'])
    b = mv(alg, V, 'b', desc['kb'])
    plan = [(op, 2, [a, b]) for op in BIN_OPS] + [(op, 1, [a]) for op in UN_OPS] + [(op, 1, [b]) for op in ('polarity', 'unpolarity', 'hodge', 'unhodge') if not (alg.r and 'polarity' in op)]
    claims = []
    snaps = _snapshot([a, b])
    wants = {}
    for op, ar, args in plan:            # phase 1: generate everything
        try:
            _call(alg, route, op, ar, args, regs)
        except ZeroDivisionError:
            pass
    for i, (op, ar, args) in enumerate(plan):       # phase 2: call again, compare with a fresh algebra
        try:
            want = _fresh_result(desc['cfg'], op, ar, args)
        except ZeroDivisionError:
            want = None
        try:
            r = _call(alg, route, op, ar, args, regs)
        except ZeroDivisionError:
            r = None
        if (r is None) != (want is None):
            claims.append(Fail(f'raise-mismatch[{op}]', f'{op}: history {"raised" if r is None else "returned"}, fresh algebra {"raised" if want is None else "returned"}',
                               fkey=f'op-sweep|route={route}|raise'))
        elif r is not None:
            claims += mv_eq_claims(f'{op}#{i}', r, coeffs(want), fkey=f'op-sweep|route={route}')
    claims += _unchanged_claims('sweep', snaps)
    return claims


def _run_flaky(desc, V):
    from ..kapi import WrapperFailure
    cfg = dict(desc['cfg'], wrapper=f'flaky{desc["fail_at"]}')
    alg = make_alg(cfg)
    op = desc['op']
    ar = 2 if op in BIN_OPS else 1
    a = mv(alg, V, 'a', desc['ka'])
    b = mv(alg, V, 'b', desc['kb'])
    args = [a, b] if ar == 2 else [a]
    claims = []
    try:
        want = _fresh_result(desc['cfg'], op, ar, args)
    except ZeroDivisionError:
        return [Eq('void', 1, 1)]
    failed = 0
    for attempt in range(4):
        try:
            r = _call(alg, 'plain', op, ar, args, {})
        except WrapperFailure:
            failed += 1
            continue
        except ZeroDivisionError:
            return [Eq('void', 1, 1)]
        except Exception as e:  # noqa
            return [Fail('after-failed-wrapper', f'{op}: call number {attempt + 1} after a failing wrapper application raised {type(e).__name__}: {e} (a fresh algebra returns)',
                         fkey='flaky-wrapper|trace-of-failed-call')]
        claims += mv_eq_claims(f'call{attempt}', r, coeffs(want), fkey='flaky-wrapper|value')
    if failed > 1:
        claims.append(Fail('wrapper-failed-more-than-once', f'{failed} wrapper failures for a wrapper that fails once', fkey='flaky-wrapper|harness'))
    claims.append(Note('nontrivial', ''))
    return claims


def _run_perm(desc, V):
    cfg = dict(desc['cfg'])
    route, op, arity = desc['route'], desc['op'], desc['arity']
    if route == 'wrapper':
        cfg['wrapper'] = 'wraps' if len(desc['perms']) % 2 else 'closure'
    if route == 'reentrant':
        cfg['wrapper'] = 'reentrant'
        route = 'wrapper'
    alg = make_alg(cfg)          # one algebra object for the whole history
    regs = {}
    claims, snaps = [], []
    calls = []
    for i, p in enumerate(desc['perms']):
        a = mv(alg, V, f'a{i}', p)
        if arity == 2:
            kb = list(desc['kb'])
            if desc.get('permute_b') and i % 2:
                kb = kb[::-1]
            b = mv(alg, V, f'b{i}', kb)
            args = [a, b]
        else:
            args = [a]
        calls.append(args)
    fkey = f'perm-history|route={route}'
    # phase 1: fill the caches with every ordering
    firsts = []
    for args in calls:
        snaps += _snapshot(args)
        try:
            r = _call(alg, route, op, arity, args, regs)
        except ZeroDivisionError:
            r = None
        firsts.append(r)
        if r is not None:
            snaps += _snapshot([r])
    # phase 2: call again, compare with a fresh algebra
    for i, args in enumerate(calls):
        try:
            want = _fresh_result(desc['cfg'], op, arity, args)
        except ZeroDivisionError:
            want = None
        try:
            r = _call(alg, route, op, arity, args, regs)
        except ZeroDivisionError:
            r = None
        if (r is None) != (want is None):
            claims.append(Fail(f'raise-mismatch[{i}]', f'history: {"raised" if r is None else "returned"}; fresh algebra: {"raised" if want is None else "returned"}', fkey=fkey + '|raise'))
            continue
        if r is None:
            continue
        claims += mv_eq_claims(f'second-call[{i}]', r, coeffs(want), fkey=fkey)
        if firsts[i] is not None:
            claims += mv_eq_claims(f'first-call[{i}]', firsts[i], coeffs(want), fkey=fkey)
    claims += _unchanged_claims('perm', snaps)
    return claims


# --------------------------------------------------------------------------- mixed histories

def _run_mixed(desc, V):
    rng = random.Random(desc['hseed'])
    cfg = dict(desc['cfg'])
    if desc.get('wrapper'):
        cfg['wrapper'] = 'identity'
    alg = make_alg(cfg)
    other = make_alg(dict(p=cfg.get('p', 0) + 1, q=cfg.get('q', 0), r=cfg.get('r', 0)))
    d = alg.d
    regs = {}
    base = rng.sample(range(2 ** d), rng.choice((2, 3)))
    pats_ = [list(base), list(reversed(base)), sorted(base), rng.sample(range(2 ** d), 2)]
    claims, snaps = [], []
    for step in range(desc['length']):
        letter = rng.choice(['op', 'op', 'op', 'unary', 'reg', 'reg', 'algebra-error', 'zero-div', 'failing-reg', 'call-symbolic'])
        tag = f'step{step}:{letter}'
        fkey = f'mixed-history|{letter}'
        if letter in ('op', 'reg'):
            op = rng.choice(BIN_OPS[:-1])
            a = mv(alg, V, f'a{step}', rng.choice(pats_))
            b = mv(alg, V, f'b{step}', rng.choice(pats_))
            route = 'plain' if letter == 'op' else 'register'
            snaps += _snapshot([a, b])
            r = _call(alg, route, op, 2, [a, b], regs)
            claims += mv_eq_claims(tag + f':{op}', r, coeffs(_fresh_result(desc['cfg'], op, 2, [a, b])), fkey=fkey)
            snaps += _snapshot([r])
        elif letter == 'unary':
            op = rng.choice(UN_OPS[:-1])
            a = mv(alg, V, f'a{step}', rng.choice(pats_))
            snaps += _snapshot([a])
            r = _call(alg, 'plain', op, 1, [a], regs)
            claims += mv_eq_claims(tag + f':{op}', r, coeffs(_fresh_result(desc['cfg'], op, 1, [a])), fkey=fkey)
            snaps += _snapshot([r])
        elif letter == 'algebra-error':
            a = mv(alg, V, f'a{step}', pats_[0])
            b = mv(other, V, f'o{step}', [1])
            try:
                a * b
                claims.append(Note(tag, 'cross-algebra product did not raise (C14 subject)'))
            except Exception:
                pass
        elif letter == 'zero-div':
            # generation-time ZeroDivisionError: inverse of a null blade where one exists, else division by an empty mv
            try:
                z = alg.multivector(keys=(), values=[])
                a = mv(alg, V, f'a{step}', pats_[0])
                a / z
            except Exception:
                pass
        elif letter == 'failing-reg':
            ns = {}
            exec('def reg_bad(x):\n    return x.no_such_method()\n', ns)
            try:
                alg.register(ns['reg_bad'])(mv(alg, V, f'a{step}', pats_[0]))
            except Exception:
                pass
        elif letter == 'call-symbolic':
            import sympy
            s = alg.multivector(keys=tuple(pats_[2]), name='u')
            t = s * s
            names = sorted(str(x) for x in t.free_symbols)
            vals = {str(x): V.var(f'c{step}_{x}') for x in s.values()}
            if names:
                r = t(**{n: vals[n] for n in names})
                f = make_alg(desc['cfg'])
                from kingdon.multivector import MultiVector
                sv = MultiVector.fromkeysvalues(f, tuple(pats_[2]), [vals[str(x)] for x in s.values()])
                claims += mv_eq_claims(tag, r, coeffs(sv * sv), fkey=fkey)
    claims += _unchanged_claims('mixed', snaps)
    claims.append(Eq('history-completed', 1, 1))
    return claims


# --------------------------------------------------------------------------- histories on one multivector object

def _run_object(desc, V):
    """
    x is a multivector with named (sympy) coefficients.  After a pre-history on the OBJECT x (calls with other
    values, use as operand, inspection of its cached properties, an earlier derivation), y = derive(x) is used
    (called with solver-term values, used as operand) and compared with the same derivation applied to a
    multivector that carries those solver terms directly on a fresh algebra.
    """
    from kingdon.multivector import MultiVector
    alg = make_alg(desc['cfg'])
    fresh = make_alg({k: v for k, v in desc['cfg'].items() if k != 'wrapper'})
    keys = tuple(desc['ka'])
    derive = OBJ_DERIVE[desc['derive']]
    fkey = f'object-history|{desc["derive"]}'
    claims = [Note('nontrivial', '')]
    if desc.get('numeric'):
        # numeric x (solver terms) with a pre-history; the derived multivector is then used as operand
        x = mv(alg, V, 'x', keys)
        snaps = _snapshot([x])
        for letter in desc['pre']:
            if letter == 'operand':
                x * x; x + 1; ~x
            elif letter == 'inspect':
                x.issymbolic, x.free_symbols, x.grades, x.type_number, x.shape
            elif letter == 'derive-first':
                derive(x)
            elif letter == 'str':
                str(x.keys())
            else:
                x()
        y = derive(x)
        want = derive(MultiVector.fromkeysvalues(fresh, keys, list(x.values())))
        claims += mv_eq_claims('derived', y, coeffs(want), fkey=fkey)
        claims += mv_eq_claims('derived*x', y * x, coeffs(want * MultiVector.fromkeysvalues(fresh, keys, list(x.values()))), fkey=fkey)
        claims += _unchanged_claims('object', snaps)
        return claims
    x = alg.multivector(keys=keys, name='u')
    names = [str(v) for v in x.values()]
    vals = {n: V.var(f'c_{n}') for n in names}
    other = {n: V.var(f'o_{n}') for n in names}
    num = MultiVector.fromkeysvalues(fresh, keys, [vals[n] for n in names])
    for letter in desc['pre']:
        if letter == 'call':
            x(**vals)
        elif letter == 'call-other-values':
            x(**other)
        elif letter == 'partial-call':
            x(*[other[n] for n in sorted(names)])
            try:
                x()            # too few values: a raising call is part of the history
            except Exception:
                pass
        elif letter == 'operand':
            x * x; x + 1; ~x
        elif letter == 'inspect':
            x.issymbolic, x.free_symbols, x.grades, x.type_number, x.shape
        elif letter == 'derive-first':
            y1 = derive(x)
            y1(**{str(v): other[str(v)] for v in y1.free_symbols})
        elif letter == 'str':
            str(x)
    y = derive(x)
    want = derive(num)
    for j, letter in enumerate(desc['post']):
        tag = f'post{j}:{letter}'
        if not y.free_symbols:
            claims.append(Eq(tag + ':no-symbols', 1, 1))
            continue
        ynames = sorted(str(v) for v in y.free_symbols)
        if letter == 'call':
            claims += mv_eq_claims(tag, y(**{n: vals[n] for n in ynames}), coeffs(want), fkey=fkey)
        elif letter == 'call-positional':
            claims += mv_eq_claims(tag, y(*[vals[n] for n in ynames]), coeffs(want), fkey=fkey)
        elif letter == 'call-twice':
            y(**{n: other[n] for n in ynames})
            claims += mv_eq_claims(tag, y(**{n: vals[n] for n in ynames}), coeffs(want), fkey=fkey)
        elif letter == 'operand-then-call':
            z = y * x
            znames = sorted(str(v) for v in z.free_symbols)
            if znames:
                claims += mv_eq_claims(tag, z(**{n: vals[n] for n in znames}), coeffs(want * num), fkey=fkey)
        elif letter == 'call-no-symbols':
            r = y(**{n: vals[n] for n in ynames})
            r2 = r()
            claims += mv_eq_claims(tag, r2, coeffs(want), fkey=fkey)
    # x itself still evaluates to its own coefficients
    claims += mv_eq_claims('x-after', x(**vals), coeffs(num), fkey='object-history|source-changed')
    return claims


# --------------------------------------------------------------------------- thread schedules

def _run_threads(desc, V):
    """
    Two threads make their FIRST calls on one fresh algebra; all schedules with <= max_preempt preemptions at the
    yield points of kv.sched are executed (real threads, real code, one runs at a time), each with solver-term
    operands; after every schedule both results and a third sequential call are compared with a fresh algebra.
    """
    from .. import sched
    from kingdon.multivector import MultiVector
    cfg = dict(desc['cfg'])
    route, op, scenario = desc['route'], desc['op'], desc['scenario']
    if route == 'wrapper':
        cfg['wrapper'] = 'identity'
    arity = 2 if op in BIN_OPS else 1
    ka, kb = list(desc['ka']), list(desc['kb'])
    proto = make_alg(desc['cfg'])
    a0, b0 = mv(proto, V, 'a', ka), mv(proto, V, 'b', kb)
    a1, b1 = mv(proto, V, 'c', ka[::-1] if scenario == 'permuted' else ka), mv(proto, V, 'd', kb)
    ops_ = [op, 'gp' if scenario == 'two-ops' else op]
    ars = [arity, 2 if scenario == 'two-ops' else arity]
    argsets = [[a0, b0][:ars[0]], [a1, b1][:ars[1]]]
    fkey = f'thread-schedules|{scenario}|route={route}'
    if scenario == 'symbolic-call':
        x_vals = [{f'u{n}': V.var(f't{i}_{n}') for n in range(len(ka))} for i in range(2)]
        wants = []
        for i in range(2):
            xs = MultiVector.fromkeysvalues(proto, tuple(ka), list(x_vals[i].values()))
            import sympy as _sp
            xp = proto.multivector(keys=tuple(ka), values=[_sp.Symbol(f'u{n}') for n in range(len(ka))])
            use_x = not (xp * xp).free_symbols
            wants.append(coeffs(xs) if use_x else coeffs(xs * xs))
    else:
        wants = []
        for i in range(2):
            try:
                wants.append(coeffs(_fresh_result(desc['cfg'], ops_[i], ars[i], argsets[i])))
            except ZeroDivisionError:
                return [Eq('void', 1, 1)]

    def make_bodies():
        alg = make_alg(cfg)
        regs = {}
        if scenario == 'symbolic-call':
            import sympy
            x = alg.multivector(keys=tuple(ka), values=[sympy.Symbol(f'u{n}') for n in range(len(ka))])
            y = x if use_x else x * x
            fs = sorted(str(v) for v in y.free_symbols)
            bodies = [(lambda i=i: y(**{n: x_vals[i][n] for n in fs})) for i in range(2)]
            again = lambda: y(**{n: x_vals[0][n] for n in fs})
        else:
            rebuilt = [[MultiVector.fromkeysvalues(alg, tuple(m.keys()), list(m.values())) for m in args] for args in argsets]
            r = 'register' if scenario == 'registered' else route
            bodies = [(lambda i=i: _call(alg, r, ops_[i], ars[i], rebuilt[i], regs)) for i in range(2)]
            again = lambda: _call(alg, r, ops_[0], ars[0], rebuilt[0], regs)

        def finish(results, errors, trace):
            return results, errors, again
        return bodies, finish

    outcomes, stats = sched.explore(make_bodies, max_preempt=desc['max_preempt'], max_schedules=desc['max_schedules'])
    claims = [Note('nontrivial', ''), Note('schedules', f"{stats['schedules']} schedules (<= {stats['max_preempt']} preemptions, up to {stats['max_yield_points']} scheduling decisions"
                                                        f"{', TRUNCATED at the schedule budget' if stats['truncated'] else ''})")]
    for n, (trace, (results, errors, again)) in enumerate(outcomes):
        for i in range(2):
            if errors[i] is not None:
                claims.append(Fail(f's{n}:thread{i}:raises', f'schedule {_fmt_trace(trace)}: thread {i} raised {type(errors[i]).__name__}: {errors[i]}', fkey=fkey + '|raises'))
            else:
                claims += mv_eq_claims(f's{n}:thread{i}', results[i], wants[i], fkey=fkey)
        try:
            claims += mv_eq_claims(f's{n}:after', again(), wants[0], fkey=fkey + '|after')
        except Exception as e:  # noqa
            claims.append(Fail(f's{n}:after:raises', f'schedule {_fmt_trace(trace)}: sequential call after the threads raised {type(e).__name__}: {e}', fkey=fkey + '|raises'))
    claims.append(Eq('schedules-explored', len(outcomes) > 0, True))
    return claims


def _fmt_trace(trace):
    out, prev, n = [], None, 0
    for t in trace:
        if t == prev:
            n += 1
        else:
            if prev is not None:
                out.append(f'T{prev}x{n}')
            prev, n = t, 1
    if prev is not None:
        out.append(f'T{prev}x{n}')
    return ' '.join(out)


# --------------------------------------------------------------------------- registered functions sharing a name

def _mk_scale(k):
    def scale(a):
        return k * a
    return scale


def _mk_named(name, body, nargs):
    ns = {}
    args = ', '.join('ab'[:nargs])
    exec(f'def {name}({args}):\n    return {body}\n', ns)
    return ns[name]


def _run_same_name(desc, V):
    """
    Distinct function objects with one Python __name__ are registered on ONE algebra; each result is compared with
    the plain Python function (= what a fresh algebra returns), before and after the others were called.
    """
    cfg = dict(desc['cfg'])
    if desc['wrapped']:
        cfg['wrapper'] = 'identity'
    alg = make_alg(cfg)
    sc = desc['scenario']
    x = mv(alg, V, 'x', desc['ka'])
    y = mv(alg, V, 'y', desc['kb'])
    fkey = f'same-name|{sc}|{"wrapper" if desc["wrapped"] else "plain"}'
    claims = [Note('nontrivial', '')]
    calls = []          # (label, registered callable, plain callable, args)
    if sc in ('closures', 'closures-symbolic', 'closures-nested'):
        f2, f3 = _mk_scale(2), _mk_scale(3)
        symbolic = sc == 'closures-symbolic'
        r2 = alg.register(f2, symbolic=True) if symbolic else alg.register(f2)
        r3 = alg.register(f3, symbolic=True) if symbolic else alg.register(f3)
        if sc == 'closures-nested':
            outer = _mk_named('c09_outer', 'inner(a) + a', 1)
            outer.__globals__['inner'] = r2
            ro = alg.register(outer)
            plain_outer = lambda a: 2 * a + a
            calls = [('outer#0', ro, plain_outer, [x]), ('triple', r3, f3, [x]), ('outer#1', ro, plain_outer, [x]), ('double', r2, f2, [x]), ('outer#2', ro, plain_outer, [x])]
        else:
            calls = [('double#0', r2, f2, [x]), ('triple#0', r3, f3, [x]), ('double#1', r2, f2, [x]), ('triple#1', r3, f3, [x]), ('double(y)', r2, f2, [y])]
    elif sc == 'name-tail-digits':
        # functions whose names end in digits, registered many times, called with non-canonical key orders: the pieces a generated
        # name is glued from (function name, serial number of the registration, key tag) must not be confusable
        fa = [_mk_named('c09_rot', 'a * 2', 1) for _ in range(14)]
        fb = [_mk_named(f'c09_rot_{j}', 'a * 3', 1) for j in range(14)]
        ra = [alg.register(f) for f in fa]
        rb = [alg.register(f) for f in fb]
        ks = tuple(desc['ka'])
        xs = [x, mv(alg, V, 'x2', list(ks)[::-1]), y]
        for j in (0, 1, 2, 3, 11, 13):
            for t, xv in enumerate(xs):
                calls.append((f'rot[{j}]#{t}', ra[j], fa[j], [xv]))
                calls.append((f'rot_{j}#{t}', rb[j], fb[j], [xv]))
        calls = calls + calls[:12]
    elif sc == 'registered-twice':
        # one function object registered twice (numeric and symbolic), then another function of the same name
        g1 = _mk_named('c09_twice', 'a * b', 2)
        g2 = _mk_named('c09_twice', 'a + b', 2)
        r1n = alg.register(g1)
        r1s = alg.register(g1, symbolic=True)
        r2 = alg.register(g2)
        outer = _mk_named('c09_twice_outer', 'inner(a, b) ^ a', 2)
        outer.__globals__['inner'] = r1s
        ro = alg.register(outer)
        plain_outer = lambda a, b: (a * b) ^ a
        calls = [('first#0', r1s, g1, [x, y]), ('second#0', r2, g2, [x, y]), ('first#1', r1s, g1, [x, y]), ('outer#0', ro, plain_outer, [x, y]),
                 ('second#1', r2, g2, [x, y]), ('outer#1', ro, plain_outer, [x, y]), ('first-numeric', r1n, g1, [x, y])]
    elif sc == 'redefined':
        # the documented decorator form used twice for the same name (a notebook cell run again with another body)
        g1 = _mk_named('c09_cell', 'a * b', 2)
        g2 = _mk_named('c09_cell', 'a ^ b', 2)
        r1, r2 = alg.register(g1), alg.register(g2)
        calls = [('first#0', r1, g1, [x, y]), ('second#0', r2, g2, [x, y]), ('first#1', r1, g1, [x, y]), ('second#1', r2, g2, [x, y])]
    else:
        name = sc.split('-', 1)[1]
        user = {'div': ('a / b', 2), 'sqrt': ('a * a', 1), 'custom': ('a + a', 1), 'codegen_gp': ('a ^ b', 2)}[name]
        other = {'div': ('a / b', 2), 'sqrt': ('(a * a) + a', 1), 'custom': ('a * a', 1), 'codegen_gp': ('a * b', 2)}[name]
        fu = _mk_named(name, *user)
        fo = _mk_named('c09_other', *other)
        ru, ro = alg.register(fu), alg.register(fo)
        au = [x, y][:user[1]]
        ao = [x, y][:other[1]]
        calls = [('other#0', ro, fo, ao), ('user#0', ru, fu, au), ('other#1', ro, fo, ao), ('user#1', ru, fu, au)]
    for label, reg, plain, args in calls:
        try:
            want = coeffs(plain(*args))
        except ZeroDivisionError:
            continue
        try:
            got = reg(*args)
        except ZeroDivisionError:
            continue
        except RecursionError as e:
            claims.append(Fail(f'{label}:raises', f'{label}: the registered function raised RecursionError (the plain function returns)', fkey=fkey + '|raises'))
            continue
        claims += mv_eq_claims(label, got, want, fkey=fkey)
    return claims


_FRESH_NAMES = r"""
import json, sys
from kingdon import Algebra
def ident(f):
    def wrapped(*args):
        return f(*args)
    wrapped.__name__ = f.__name__
    return wrapped
use_wrapper, variant = sys.argv[1] == '1', sys.argv[2]
alg = Algebra(2, wrapper=ident if use_wrapper else None)
def helper(i):
    def h(a):
        return a + a
    h.__name__ = f'helper{i}'
    return h
regs = []
def reg(f):
    r = alg.register(f); regs.append(r); return r
for i in (0, 1):
    reg(helper(i))
def rot(a):
    return 2 * a if variant == 'scale' else a.e1
rot_r = reg(rot)
for i in range(3, 11):
    reg(helper(i))
def rot_2(a):
    return 3 * a if variant == 'scale' else a.e2
rot_2_r = reg(rot_2)
def outer(a):
    return rot_r(a)
outer_r = reg(outer)
x = alg.multivector(keys=(3, 1, 0), values=[1.0, 10.0, 100.0])
y = alg.multivector(keys=(1, 0), values=[5.0, 7.0])
f, plain = (rot_r, rot) if use_wrapper else (outer_r, rot)
def co(m):
    return {int(k): float(v) for k, v in zip(m.keys(), m.values())} if hasattr(m, 'keys') else {0: float(m)}
out = {}
try:
    out['first'] = co(f(x)); rot_2_r(y); out['second'] = co(f(x)); out['want'] = co(plain(x))
    out['ok'] = all(abs(out[k].get(b, 0) - out['want'].get(b, 0)) < 1e-12 for k in ('first', 'second') for b in set(out[k]) | set(out['want']))
except Exception as e:
    out['ok'] = False; out['error'] = f'{type(e).__name__}: {e}'
print(json.dumps(out))
"""


def _run_fresh_names(desc):
    import json, os, subprocess, sys
    r = subprocess.run([sys.executable, '-c', _FRESH_NAMES, '1' if desc['use_wrapper'] else '0', desc['variant']], capture_output=True, text=True,
                       env=dict(os.environ), timeout=300)
    line = (r.stdout.strip().splitlines() or ['{}'])[-1]
    try:
        res = json.loads(line)
    except ValueError:
        res = {'ok': False, 'error': (r.stderr or r.stdout)[-300:]}
    claims = [Note('nontrivial', ''), Eq('reached', 1, 1)]
    if not res.get('ok'):
        claims.append(Fail('fresh-process-names', f'in a fresh interpreter, rot (3rd registration) called with keys (3,1,0) before and after rot_2 (12th registration) was called with keys (1,0): {res}',
                           fkey=f'fresh-process-names|{"wrapper" if desc["use_wrapper"] else "nested"}'))
    return claims
