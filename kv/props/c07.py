"""
C07 -- inverse and division are exact two-sided inverses wherever they return.

Engine A with proxy division (reciprocal variable q, q*den = 1, den != 0 recorded; shared between
denominators proved identical):
 inv      x.inv() is executed on symbolic x; proved: x*xi = 1 = xi*x on every blade, for all x
          whose (single, recorded) denominator is non-zero -- closed forms (d<=5) and the
          iterative Shirokov scheme (d>=6).
 div      a/b = a*b.inv(); s/x = s*x.inv() for a symbolic plain number s; x**-n = (x.inv())**n.
 'ZeroDivisionError only for operands that have no inverse', two exists-queries (must be unsat):
   (i)  a pattern whose inverse raises for EVERY operand (generation-time raise or identically
        zero denominator):  exists x (pattern), y (dense): x*y = 1;
   (ii) run-time zero denominator:  exists x, y: den(x) = 0 /\\ x*y = 1.
   Both are posed only for d<=2 (any pattern) and d=3 with <=3 blades (stated bound; z3 answers unknown on some 4-blade patterns); a witness is
   confirmed on exact rationals through the public API before it is reported.
 Any exception other than ZeroDivisionError from inv/div/** on an enumerated pattern is a violation
 of 'for algebras of every signature and dimension'.
Addition chains (power_supply) used by the Shirokov scheme and Polynomial.__pow__ are checked
with CrossHair in C17's harness set.
"""
from __future__ import annotations

import random
from fractions import Fraction

import z3

from ..core import Eq, Fail, Note, Unsat
from .. import pat, ops, sym
from ..kapi import get_alg, make_alg, mv, coeffs, mv_eq_claims, eq_claims, kmap

PROP = 'C07'
LEVEL = 'translation_validation'
ENGINES = ['A']
FUNCTIONS = ['codegen_inv', 'codegen_hitzer_inv', 'codegen_shirokov_inv', 'power_supply', 'AdditionChains', 'codegen_div',
             'RationalPolynomial arithmetic at generation time', 'lambdify with dependencies (denominator precomputed once)',
             'MultiVector.__pow__ (negative powers)', 'MultiVector.__rtruediv__', 'generated codegen_inv_/div_ functions']
ASSUMPTIONS = ['coefficients are reals: identities are exact (floating-point rounding for d>=6 is outside)',
               'every claim is "for all operands whose recorded denominators are non-zero"',
               'float literals in generated code (n*s/i in the Shirokov scheme) are snapped to the nearest rational (1e-12 relative)']
BOUNDS = {'quick': 'all (p,q,r) d<=3 (dense and sparse), d=4 dense for 3 signatures + sparse, d=5 <=5 blades, d=6,7 <=3 blades plus structured long-minimal-polynomial patterns; division/inverse histories with several denominators on wrapper / registered routes; exists-queries d<=2 all subsets, d=3 <=3 blades; exactness clause d<=5 (no float constant meets a coefficient); numerator and denominator histories under wrapper / register; concrete float accuracy on operands of condition number <= 2e4 in d = 3..7; d=6,7 operands with the scalar part stored second / last',
          'thorough': 'd=4 dense all (p,q,r), d=5 <=6 blades, d=6,7 <=4 blades, d=8 <=2 blades; exists-queries as quick'}
OUTSIDE = ['dense operands in d >= 5 (generation time / solver unknown)', 'exists-queries for dense d >= 3', 'floating-point rounding', 'complex coefficients']
OPTS = {'rlimit': 400_000_000, 'canary_every': 8}
CHUNKS_PER_WORKER = 12


def cases(tier, seed):
    rng = random.Random(seed * 7919 + 7)
    out = []

    def add(kind, cfg, ka, **kw):
        out.append(dict(kind=kind, cfg=cfg, ka=list(ka), **kw))

    for d in (0, 1, 2):
        S = pat.SUB(d)
        for p, q, r in pat.pqr_all(d):
            cfg = dict(p=p, q=q, r=r)
            for ka in S:
                if not ka:
                    continue
                add('inv', cfg, ka, exists=True)
                kp = list(ka)
                if len(kp) > 1:
                    rng.shuffle(kp)
                    add('inv', cfg, kp)
            for _ in range(6):
                add('div', cfg, rng.choice(S[1:]), kb=list(rng.choice(S[1:])))
            add('div', cfg, [], kb=list(rng.choice(S[1:])))          # empty numerator: 0 / b
            add('pow', cfg, rng.choice(S[1:]))
    S3 = pat.SUB(3)
    for p, q, r in pat.pqr_all(3):
        cfg = dict(p=p, q=q, r=r)
        small = [s for s in S3 if 1 <= len(s) <= 3]
        for ka in rng.sample(small, 14 if tier == 'quick' else 60):
            add('inv', cfg, ka, exists=True)
        for ka in rng.sample([s for s in S3 if len(s) >= 4], 6 if tier == 'quick' else 40) + pat.FULL(3):
            add('inv', cfg, ka)
        for ka in pat.RND(3, 4, rng, min_len=2):
            add('inv', cfg, ka)
        for _ in range(4):
            add('div', cfg, rng.choice(small), kb=list(rng.choice(small)))
        add('pow', cfg, rng.choice(small))
    cfg4 = [dict(p=4), dict(p=3, r=1), dict(p=1, q=3)] if tier == 'quick' else [dict(p=p, q=q, r=r) for p, q, r in pat.pqr_all(4)]
    for cfg in cfg4 + [dict(name='3DPGA')]:
        add('inv', cfg, pat.FULL(4)[0])
        for ka in pat.RND(4, 5 if tier == 'quick' else 25, rng, max_len=6, min_len=1) + pat.GRD(4, max_grades=2)[1:8]:
            add('inv', cfg, ka)
        add('div', cfg, pat.RND(4, 1, rng, max_len=4, min_len=1)[0], kb=list(pat.RND(4, 1, rng, max_len=4, min_len=1)[0]))
    # d = 5 and d = 6 sit on either side of the closed-form / iterative switch: always both
    for cfg in [dict(p=5), dict(p=4, q=1), dict(p=3, q=1, r=1), dict(p=2, q=3)] + ([dict(name='STAP')] if tier == 'thorough' else []):
        n = 9 if tier == 'quick' else 50
        for ka in pat.RND(5, n, rng, max_len=5 if tier == 'quick' else 6, min_len=1):
            add('inv', cfg, ka)
        for g in ((1,), (2,), (0, 2), (1, 4)) if tier == 'thorough' else ((1,), (0, 5)):
            add('inv', cfg, [k for k in pat.canon_order(5) if bin(k).count('1') in g][:6])
        add('div', cfg, [1, 6], kb=[0, 3, 24])
    for d, cfgs in ((6, [dict(p=6), dict(p=4, q=1, r=1), dict(p=3, q=3)]), (7, [dict(p=7), dict(p=4, q=2, r=1)])):
        for cfg in cfgs:
            order = list(range(2 ** d))
            n = 5 if tier == 'quick' else 20
            for ka in pat.RND(d, n, rng, max_len=3 if tier == 'quick' else 4, min_len=1, order=order):
                add('inv', cfg, ka)
            add('inv', cfg, [1, 2, 4])
            # structured mixed-grade patterns (commuting blade sets have long minimal polynomials: they
            # exercise the number of Shirokov iterations)
            for ka in ([0, 1, 6], [1, 6, 24], [0, 1, 2, 3], [0, 3, 12, 48], [0, 7, 56, 2 ** d - 1], [1, 6, 24, 32 + 64 * (d > 6)],
                       [3, 12, 48, 2 ** (d - 1)], [1, 6, 24, 33 + 64 * (d > 6)]):
                add('inv', cfg, ka)
            add('div', cfg, [0, 3], kb=[1, 2 ** d - 1])
            # the same kind of operands with the scalar part stored second / last (storage order is the caller's choice)
            for ka in ([1, 0, 6], [6, 1, 0], [3, 12, 0, 48]):
                add('inv', cfg, ka)
            add('div', cfg, [3, 0], kb=[2 ** d - 1, 0, 1])
    # routes that resolve the generated division/inverse by name: several denominators on one algebra
    for route in ('wrapper', 'register'):
        for cfg in (dict(p=2), dict(p=3), dict(p=2, r=1), dict(p=1, q=2)):
            d = sum(cfg.values())
            order = pat.canon_order(d, 0 if cfg.get('r') == 1 else 1)
            grades = [[k for k in order if bin(k).count('1') == g] for g in range(d + 1)]
            for _ in range(3 if tier == 'quick' else 12):
                ka = list(rng.choice(grades + [pat.RND(d, 1, rng, max_len=3, min_len=1)[0]]))
                dens = rng.sample([g for g in grades if g], 2) + [list(pat.RND(d, 1, rng, max_len=3, min_len=1)[0])]
                nums = [list(g) for g in rng.sample([g for g in grades if g], min(2, len([g for g in grades if g])))]
                out.append(dict(kind='div-history', cfg=cfg, route=route, ka=ka, dens=[list(x) for x in dens], nums=nums))
    # "to rounding otherwise": concrete python floats, well-conditioned operands (condition number <= 2e4), d = 3 .. 7
    for d in (3, 4, 5, 6, 7):
        out.append(dict(kind='float-accuracy', cfg=dict(p=d)))
    if tier == 'thorough':
        for ka in pat.RND(8, 8, rng, max_len=2, min_len=1, order=list(range(256))):
            add('inv', dict(p=5, q=2, r=1), ka)
    return out


def _one(alg):
    return {0: 1}


def _exists_inverse_formula(km, xvals: dict, V, tag):
    """conjunction: x * y = 1 for a dense y of fresh variables (reference product)."""
    R = km.ref
    y = {m: V.var(f'{tag}y_{m}') for m in range(2 ** km.d)}
    prod = R.gp(km.to_ref(xvals), y)
    conj = []
    for m in range(2 ** km.d):
        conj.append(sym.term(prod.get(m, 0)) == (1 if m == 0 else 0))
    return z3.And(*conj), y


def _run_div_history(desc, V):
    """a/b1, a/b2, a/b3 then all again on ONE algebra whose numeric path resolves functions by name."""
    from kingdon.multivector import MultiVector
    cfg = dict(desc['cfg'])
    route = desc['route']
    if route == 'wrapper':
        cfg['wrapper'] = 'identity'
    alg = make_alg(cfg)
    plain = make_alg(desc['cfg'])
    a = mv(alg, V, 'a', desc['ka'])
    s_ = V.var('s')
    bs = [mv(alg, V, f'b{i}', kb) for i, kb in enumerate(desc['dens'])]
    if route == 'register':
        ns = {}
        exec('def reg_div(x, y):\n    return x / y\n', ns)
        exec('def reg_inv(y):\n    return y.inv()\n', ns)
        fdiv, finv = alg.register(ns['reg_div']), alg.register(ns['reg_inv'])
    else:
        fdiv, finv = (lambda x, y: x / y), (lambda y: y.inv())
    claims = []
    # several NUMERATOR patterns over one denominator, then the first again (generated division functions are looked up by name)
    nums = [a] + [mv(alg, V, f'n{j}', kn) for j, kn in enumerate(desc.get('nums', []))]
    b0 = bs[0]
    pb0 = MultiVector.fromkeysvalues(plain, tuple(b0.keys()), list(b0.values()))
    try:
        winv0 = pb0.inv()
    except ZeroDivisionError:
        winv0 = None
    if winv0 is not None and len(nums) > 1:
        for rnd in range(2):
            for j, n_ in enumerate(nums):
                pn = MultiVector.fromkeysvalues(plain, tuple(n_.keys()), list(n_.values()))
                try:
                    claims += mv_eq_claims(f'num{j}/b0#{rnd}', fdiv(n_, b0), coeffs(pn * winv0), fkey=f'div-history|route={route}|numerators')
                except ZeroDivisionError:
                    claims.append(Fail(f'zde-num[{j}]', 'division raised ZeroDivisionError on the history algebra but the inverse exists on a fresh one', fkey=f'div-history|route={route}|raise'))
    for rnd in range(2):
        for i, b in enumerate(bs):
            pb = MultiVector.fromkeysvalues(plain, tuple(b.keys()), list(b.values()))
            pa = MultiVector.fromkeysvalues(plain, tuple(a.keys()), list(a.values()))
            try:
                want_inv = pb.inv()
            except ZeroDivisionError:
                continue
            want = coeffs(pa * want_inv)
            try:
                claims += mv_eq_claims(f'a/b{i}#{rnd}', fdiv(a, b), want, fkey=f'div-history|route={route}')
                claims += mv_eq_claims(f'inv(b{i})#{rnd}', finv(b), coeffs(want_inv), fkey=f'div-history|route={route}')
                if route == 'wrapper':
                    claims += mv_eq_claims(f's/b{i}#{rnd}', s_ / b, coeffs(s_ * want_inv), fkey=f'div-history|route={route}')
            except ZeroDivisionError:
                claims.append(Fail(f'zde[{i}]', 'division raised ZeroDivisionError on the history algebra but the inverse exists on a fresh one', fkey=f'div-history|route={route}|raise'))
    claims.append(Eq('reached', 1, 1))
    return claims


def _run_float_accuracy(desc):
    """sampling on concrete floats (stated as such): x = s * (1 + t e1) has the exact inverse (1 - t e1) / (s (1 - t^2))."""
    alg = make_alg(desc['cfg'])
    d = alg.d
    claims = [Note('nontrivial', ''), Eq('reached', 1, 1)]
    for s_ in (1.0, 1e-6, 1e6):
        for t in (0.5, 0.9, 0.99, 0.999, 0.9999):
            x = alg.multivector(keys=(0, 1), values=[s_ * 1.0, s_ * t])
            cond = (1 + t) / (1 - t)
            tag = f'd={d}'
            try:
                xi = x.inv()
                p_ = x * xi
            except Exception as e:  # noqa
                claims.append(Fail(f'float[{s_},{t}]:raises', f'inverse of {s_}*(1 + {t} e1) (condition number {cond:.0f}) in {d}-D raises {type(e).__name__}: {e}',
                                   fkey=f'inv|float-accuracy|{tag}|raises'))
                continue
            err = max([abs(complex(p_.e) - 1)] + [abs(complex(v)) for k, v in zip(p_.keys(), p_.values()) if k != 0])
            if not err < 1e-6 * cond:
                claims.append(Fail(f'float[{s_},{t}]', f'x = {s_}*(1 + {t} e1) in {d}-D (condition number {cond:.0f}): |x*x.inv() - 1| = {err:.3g}', fkey=f'inv|float-accuracy|{tag}'))
    return claims


def run_case(desc, V):
    if desc['kind'] == 'float-accuracy':
        return _run_float_accuracy(desc)
    if desc['kind'] == 'div-history':
        return _run_div_history(desc, V)
    alg = get_alg(desc['cfg'])
    km = kmap(alg)
    kind = desc['kind']
    x = mv(alg, V, 'x', desc['ka'])
    X = coeffs(x)
    claims = []
    small = alg.d <= 2 or (alg.d == 3 and len(desc['ka']) <= 3)
    if kind == 'inv':
        ctx = sym.cur()
        n_before = len(ctx.denominators) if V.symbolic else 0
        f_before = ctx.float_lifts if V.symbolic else 0
        try:
            xi = x.inv()
        except ZeroDivisionError:
            # raises for this pattern (generation time or identically zero denominator)
            if V.symbolic and desc.get('exists') and small:
                f, _ = _exists_inverse_formula(km, X, V, 'i')
                claims.append(Unsat('zero-division-but-invertible(pattern)', f, fkey='inv|ZeroDivisionError-for-invertible|pattern',
                                    detail='inv() raises ZeroDivisionError for every operand of this pattern, yet an operand with an inverse exists', free=True))
            else:
                claims.append(Note('inv', 'raises ZeroDivisionError for this pattern; exists-query not posed (outside its bound)'))
            claims.append(Eq('raised-zerodivision', 1, 1))
            return claims
        if V.symbolic:
            dens = ctx.denominators[n_before:]
            for dterm in dens:
                s = z3.Solver(); s.set('rlimit', 50_000_000); s.add(dterm != 0)
                if s.check() == z3.unsat:
                    # identically zero denominator: same as "raises for every operand"
                    del ctx.assumptions[:]
                    if desc.get('exists') and small:
                        f, _ = _exists_inverse_formula(km, X, V, 'i')
                        claims.append(Unsat('zero-division-but-invertible(pattern)', f, fkey='inv|ZeroDivisionError-for-invertible|pattern', free=True))
                    claims.append(Eq('identically-zero-denominator', 1, 1))
                    return claims
        one = {0: 1}
        prod = x * xi
        claims += mv_eq_claims('x*inv(x)=1', prod, one)
        claims += mv_eq_claims('inv(x)*x=1', xi * x, one)
        if alg.d <= 5:
            # "exactly over exact coefficient types in up to five dimensions": the generated closed form must
            # not bring floating-point constants into the arithmetic.  Symbolic pass: a float constant met a
            # coefficient; concrete pass (Fraction operands): a float came out.
            inexact = (ctx.float_lifts > f_before) if V.symbolic else \
                any(isinstance(v, float) for v in list(xi.values()) + list(prod.values()))
            if inexact:
                claims.append(Fail('inexact-inverse', 'x.inv() in d <= 5 mixes floating-point constants into exact (Fraction) coefficients: '
                                   'x*x.inv() is 1 only to rounding', fkey='inv|inexact-in-closed-form-dimension'))
        if V.symbolic and desc.get('exists') and small and dens:
            f, _ = _exists_inverse_formula(km, X, V, 'r')
            claims.append(Unsat('zero-denominator-but-invertible(runtime)', z3.And(z3.Or(*[dd == 0 for dd in dens]), f),
                                fkey='inv|ZeroDivisionError-for-invertible|runtime',
                                detail='the denominator of the generated inverse vanishes for an operand that has an inverse', free=True))
        return claims
    if kind == 'div':
        b = mv(alg, V, 'b', desc['kb'])
        s_ = V.var('s')
        try:
            bi = b.inv()
        except ZeroDivisionError:
            bi = None
        try:
            q = x / b
        except ZeroDivisionError:
            q = None
        if (q is None) != (bi is None):
            claims.append(Fail('div-vs-inv-raise', f'a/b {"raised" if q is None else "returned"} but b.inv() {"raised" if bi is None else "returned"}'))
            return claims
        if q is None:
            return [Eq('raised-zerodivision', 1, 1)]
        claims += mv_eq_claims('a/b=a*inv(b)', q, coeffs(x * bi))
        claims += mv_eq_claims('s/b=s*inv(b)', s_ / b, coeffs(s_ * bi))
        claims += mv_eq_claims('div-method', x.div(b), coeffs(x * bi))
        return claims
    if kind == 'pow':
        try:
            xi = x.inv()
        except ZeroDivisionError:
            return [Eq('raised-zerodivision', 1, 1)]
        acc = xi
        for n in (1, 2, 3):
            if n > 1:
                acc = acc * xi
            claims += mv_eq_claims(f'x**-{n}', x ** (-n), coeffs(acc))
        return claims
    raise ValueError(kind)


def confirm_unsat(desc, u, values):
    """A sat witness of an exists-query: x has an inverse y, yet kingdon raises ZeroDivisionError for x."""
    alg = make_alg(desc['cfg'])
    km = kmap(alg)
    xs = {k: values.get(f'x_{k}', Fraction(0)) for k in desc['ka']}
    tag = 'i' if 'pattern' in u.label else 'r'
    y = {m: values.get(f'{tag}y_{m}', Fraction(0)) for m in range(2 ** alg.d)}
    prod = km.ref.gp(km.to_ref(xs), y)
    if not all(prod.get(m, 0) == (1 if m == 0 else 0) for m in range(2 ** alg.d)):
        return False
    x = alg.multivector(keys=tuple(desc['ka']), values=[xs[k] for k in desc['ka']])
    try:
        x.inv()
    except ZeroDivisionError:
        return True
    return False
