"""
C17 -- the built-in polynomial arithmetic is exact rational-function arithmetic.

Engine C (CrossHair, symbolic execution of Python with z3): harness modules are GENERATED on
every run (kv.ch.gen); each fixes the shape of the operands (which monomials occur) and takes the
integer coefficients as symbolic ints, calls the real Polynomial / RationalPolynomial operator
(+ - * neg ** / inv, reflected forms with ints, ==, == 0, bool) and its postcondition compares the
result with a dictionary reference model (cross-multiplied for rational functions), checks the
merge invariant (monomials strictly sorted under compare, variables sorted, no stored zero) and
that bool()/== 0 are exact zero tests.  Shapes are drawn so that coinciding monomials (the
cancellation boundary c1 + c2 = 0) and the shortcut branches (equal denominators, single-term
common-factor removal) are reached.  compare(): antisymmetry, transitivity, compare = 0 <=> same
variables, with variable names represented by symbolic integers.  power_supply / AdditionChains
(used by __pow__ and the Shirokov inverse): every chain ends in n and each element is a sum of two
earlier ones, symbolic n.  "Confirmed over all paths" is the only passing verdict; counterexamples
are replayed on the real code; reachability twins must be refuted.
Engine A/S: tosympy() of operands and results denotes the same function -- the sympy expression is
translated to solver terms and compared with the dictionary evaluated on the same variables.
Engine F: the real Polynomial operators are also run in fork mode on REAL-valued solver-term
coefficients (every zero-test becomes a solver-checked decision), which covers larger operand
shapes harvested from kingdon's own code generation.
"""
from __future__ import annotations

import random
from fractions import Fraction

from ..core import Eq, Fail, Note
from .. import sym, sy2z3
from ..ch import gen as chgen
from ..ch import runner as chrunner

PROP = 'C17'
LEVEL = 'other'
ENGINE = 'CrossHair + kv'
ENGINES = ['C', 'A', 'S', 'F']
TECHNIQUE = 'CrossHair symbolic execution (z3) of kingdon/polynomial.py over generated shape-bounded harnesses with a dictionary reference model; fork-mode proxy execution; sympy->z3 for tosympy'
FUNCTIONS = ['polynomial.compare', 'Polynomial.__add__/__radd__/__mul__/__rmul__/__neg__/__sub__/__rsub__/__pow__/__eq__/__bool__/tosympy',
             'RationalPolynomial.__add__/__mul__/__truediv__/__rtruediv__/__neg__/__sub__/__rsub__/__pow__/inv/__eq__/__bool__/tosympy',
             'codegen.power_supply', 'codegen.AdditionChains']
ASSUMPTIONS = ['integer coefficients (CrossHair) / real coefficients (fork mode); operand shapes are enumerated',
               'variable names in compare are represented by symbolic integers: that Python string order is a total order like the integers\' is the one trusted fact',
               'inputs satisfy the class invariant (no stored zero coefficient, monomials sorted)']
BOUNDS = {'quick': '150 operand-shape pairs harvested from real code generation (fork mode); about 300 harnesses: operands with <=3 monomials over {a,b,c}, degree <=2; per-condition timeout 40 s; chains n<=24 / range n<=12; tosympy on 150 random polynomials; fork mode on 120 shapes; operands accumulated from a zero polynomial; edge operations (zero recognition, number + zero rational, copy constructor, powers 0 / negative, mixed classes); unsnapped integer division; every third tosympy case with dyadic float coefficients',
          'thorough': 'about 1000 harnesses, timeout 90 s, chains n<=40 / n<=16'}
OUTSIDE = ['float coefficients (division by a number produces floats such as 1/3)', 'operand shapes larger than the bound']
OPTS = {'rlimit': 100_000_000, 'canary_every': 10, 'max_paths': 400, 'max_depth': 200}
SPECIAL_KINDS = ('crosshair',)
EXPLANATION = __doc__


def cases(tier, seed):
    rng = random.Random(seed * 7919 + 17)
    out = []
    mons = chgen.monomials(3, 3)
    n = 150 if tier == 'quick' else 1000
    for i in range(n):
        k = rng.randint(1, 4)
        shape = chgen.sort_shape(rng.sample(mons, k))
        coefs = [rng.choice([-3, -2, -1, 1, 2, 3, 5]) for _ in shape]
        if i % 3 == 2:
            # non-integral (dyadic, hence exact) float coefficients: tosympy keeps their value
            coefs = [rng.choice([0.5, -1.5, 2.5, 0.25, -0.75, 2.0, 3]) for _ in shape]
        dshape = chgen.sort_shape(rng.sample(mons, rng.randint(1, 2)))
        dcoefs = [rng.choice([-2, -1, 1, 2, 3]) for _ in dshape]
        out.append(dict(kind='tosympy', shape=[list(m) for m in shape], coefs=coefs, dshape=[list(m) for m in dshape], dcoefs=dcoefs,
                        op=rng.choice(['id', 'add', 'mul', 'div', 'neg', 'pow'])))
    # rational functions whose denominator has the constant term 1 plus further terms (1 + x, 1 + a*a + b*b), and other fixed shapes
    for dshape, dcoefs in (([[], ['a']], [1, 1]), ([[], ['a']], [1, -2]), ([[], ['a', 'a'], ['b', 'b']], [1, 1, 1]), ([[], ['b']], [2, 1]), ([['a']], [1]), ([[]], [1]), ([[]], [3])):
        for shape, coefs in (([[], ['a']], [1, -1]), ([['b']], [2]), ([['a', 'b'], ['c']], [1, 3])):
            for op in ('div', 'div-pow', 'div-add'):
                out.append(dict(kind='tosympy', shape=shape, coefs=coefs, dshape=dshape, dcoefs=dcoefs, op=op))
    # Polynomial / int and RationalPolynomial / int multiply by the FLOAT 1/k; CrossHair cannot confirm float
    # arithmetic, so this one operation is covered by exhaustive small INTEGER coefficients (enumeration, not a solver claim)
    for shape in ([['a'], ['b']], [[], ['a']], [['a', 'b']], [['a'], ['a', 'b'], ['c']]):
        for k in (2, 3, 6):
            out.append(dict(kind='div-int-enumerated', shape=shape, k=k))
    # ... and WITHOUT the rational snapping of float constants: (P / k) * k - P is the zero polynomial
    for k in (3, 7, 49, 6):
        out.append(dict(kind='div-int-exact', k=k))
    # corner operations reachable through the public constructors and operators (concrete, deterministic)
    out.append(dict(kind='edge-ops'))
    # fork mode on real-valued coefficients
    m = 120 if tier == 'quick' else 800
    for i in range(m):
        na, nb = rng.randint(1, 4), rng.randint(1, 4)
        A = chgen.sort_shape(rng.sample(mons, na))
        B = chgen.sort_shape(rng.sample(mons, nb) + ([rng.choice(A)] if rng.random() < 0.7 else []))
        out.append(dict(kind='fork-poly', op=rng.choice(['+', '-', '*']), A=[list(x) for x in A], B=[list(x) for x in B], fork=True))
    for i in range(m // 2):
        NA = chgen.sort_shape(rng.sample(mons[:7], rng.randint(1, 2)))
        NB = chgen.sort_shape(rng.sample(mons[:7], rng.randint(1, 2)) + ([rng.choice(NA)] if rng.random() < 0.5 else []))
        dens = [[()], [('a',)], [('a', 'b')], [(), ('a',)], [('a',), ('b',)]]
        DA = rng.choice(dens)
        DB = DA if rng.random() < 0.5 else rng.choice(dens)
        out.append(dict(kind='fork-rat', op=rng.choice(['+', '-', '*', '/']), NA=[list(x) for x in NA], DA=[list(x) for x in DA],
                        NB=[list(x) for x in NB], DB=[list(x) for x in DB], fork=True))
    # operands ACCUMULATED from a zero polynomial (sum(terms, Polynomial(0))): whatever representation that leaves behind
    # denotes the same function, for ==, bool and every operation
    for i in range(40 if tier == 'quick' else 300):
        A = chgen.sort_shape(rng.sample([mm for mm in mons if mm], rng.randint(1, 3)))
        B = chgen.sort_shape(rng.sample(mons, rng.randint(1, 3)))
        out.append(dict(kind='fork-poly', op=rng.choice(['+', '-', '*', '*']), A=[list(x) for x in A], B=[list(x) for x in B], fork=True,
                        accumulate=rng.choice(['int0', 'float0', 'args0', 'ctor0', 'ctor0'])))
    # variable names whose concatenations are ambiguous (a*a*bb vs a*ab*b vs aab*b): whatever identifies a monomial must
    # be the TUPLE of names
    amb = [('a',), ('ab',), ('b',), ('bb',), ('aab',), ('a', 'ab'), ('a', 'bb'), ('ab', 'b'), ('a', 'a'), ('aab', 'b'), ('a', 'a', 'bb'), ('a', 'ab', 'b')]
    for i in range(60 if tier == 'quick' else 400):
        A = chgen.sort_shape(rng.sample(amb, rng.randint(1, 3)))
        B = chgen.sort_shape(rng.sample(amb, rng.randint(1, 3)))
        out.append(dict(kind='fork-poly', op=rng.choice(['*', '*', '+', '-']), A=[list(x) for x in A], B=[list(x) for x in B], fork=True))
    # shapes harvested from kingdon's own code generation (sw, proj, inv, div, normsq, outer series in 2-D / 3-D):
    # the operand shapes that really occur, with their +-1/+-2 coefficients generalised to symbolic reals
    H = harvest_shapes()
    rng.shuffle(H)
    nh = 150 if tier == 'quick' else 1500
    for kind, A, B in H[:nh]:
        out.append(dict(kind='fork-poly', op=kind, A=[list(x) for x in A], B=[list(x) for x in B], fork=True, harvested=True))
    return out


_HARVEST = None


def harvest_shapes(max_terms=6, max_total=9):
    """record (operator, operand shapes) of Polynomial + and * during real code generation."""
    global _HARVEST
    if _HARVEST is not None:
        return list(_HARVEST)
    import warnings
    import kingdon.polynomial as P
    from kingdon import Algebra
    rec = set()
    o_add, o_mul = P.Polynomial.__add__, P.Polynomial.__mul__

    def shape(p):
        try:
            return tuple(tuple(m[1:]) for m in p.args)
        except Exception:
            return None

    def add(self, other):
        if isinstance(other, P.Polynomial):
            a, b = shape(self), shape(other)
            if a and b and len(a) <= max_terms and len(b) <= max_terms and len(a) + len(b) <= max_total and all(isinstance(v, str) for m in a + b for v in m):
                rec.add(('+', a, b))
        return o_add(self, other)

    def mul(self, other):
        if isinstance(other, P.Polynomial):
            a, b = shape(self), shape(other)
            if a and b and len(a) * len(b) <= 12 and all(isinstance(v, str) for m in a + b for v in m):
                rec.add(('*', a, b))
        return o_mul(self, other)

    P.Polynomial.__add__, P.Polynomial.__mul__ = add, mul
    try:
        with warnings.catch_warnings():
            warnings.simplefilter('ignore')
            for sig, pats_ in (((2, 0, 0), [(1, 2), (0, 3), (0, 1, 2, 3), (3,)]), ((1, 1, 0), [(1, 2), (0, 3)]), ((2, 0, 1), [(1, 2, 4), (3, 5, 6), (0, 3, 5, 6)]),
                               ((3, 0, 0), [(1, 2, 4), (0, 3, 5, 6)])):
                alg = Algebra(*sig)
                for ka in pats_:
                    for kb in pats_[:2]:
                        for op in ('sw', 'proj', 'div'):
                            try:
                                getattr(alg, op)[ka, kb]
                            except Exception:
                                pass
                    for op in ('inv', 'normsq', 'outerexp', 'outertan'):
                        try:
                            getattr(alg, op)[ka]
                        except Exception:
                            pass
    finally:
        P.Polynomial.__add__, P.Polynomial.__mul__ = o_add, o_mul
    _HARVEST = sorted(rec)
    return list(_HARVEST)


# --------------------------------------------------------------------------- dictionary model on arbitrary ring values

def _pd(p):
    d = {}
    for mono in p.args:
        key = tuple(sorted(mono[1:]))
        d[key] = d[key] + mono[0] if key in d else mono[0]
    return d


def _dmul(d1, d2):
    r = {}
    for k1, v1 in d1.items():
        for k2, v2 in d2.items():
            k = tuple(sorted(k1 + k2))
            r[k] = r[k] + v1 * v2 if k in r else v1 * v2
    return r


def _dadd(d1, d2, sign=1):
    r = dict(d1)
    for k, v in d2.items():
        v = v if sign > 0 else -v
        r[k] = r[k] + v if k in r else v
    return r


def _deval(d, env):
    tot = 0
    for k, c in d.items():
        t = c
        for v in k:
            t = t * env[v]
        tot = tot + t
    return tot


def _dclaims(tag, d1, d2):
    out = []
    for k in sorted(set(d1) | set(d2)):
        out.append(Eq(f'{tag}[{"*".join(k) or "1"}]', d1.get(k, 0), d2.get(k, 0)))
    return out


def run_case(desc, V):
    from kingdon.polynomial import Polynomial, RationalPolynomial
    kind = desc['kind']
    if kind == 'tosympy':
        env = {v: V.var(v) for v in 'abc'}
        P = Polynomial([[c, *m] for c, m in zip(desc['coefs'], desc['shape'])])
        Q = Polynomial([[c, *m] for c, m in zip(desc['dcoefs'], desc['dshape'])])
        op = desc['op']
        if op == 'id':
            r, want = P, _deval(_pd(P), env)
        elif op == 'add':
            r, want = P + Q, _deval(_pd(P), env) + _deval(_pd(Q), env)
        elif op == 'mul':
            r, want = P * Q, _deval(_pd(P), env) * _deval(_pd(Q), env)
        elif op == 'neg':
            r, want = -P, -_deval(_pd(P), env)
        elif op == 'pow':
            r, want = P ** 2, _deval(_pd(P), env) * _deval(_pd(P), env)
        elif op == 'div-pow':
            r = RationalPolynomial(P, Q) ** 2
            q_ = _deval(_pd(P), env) / _deval(_pd(Q), env)
            want = q_ * q_
        elif op == 'div-add':
            r = RationalPolynomial(P, Q) + RationalPolynomial(Q, P) if bool(P) else RationalPolynomial(P, Q)
            want = _deval(_pd(P), env) / _deval(_pd(Q), env) + (_deval(_pd(Q), env) / _deval(_pd(P), env) if bool(P) else 0)
        else:
            r = RationalPolynomial(P, Q)
            want = _deval(_pd(P), env) / _deval(_pd(Q), env)
        got = sy2z3.to_value(r.tosympy(), env)
        return [Eq('tosympy', got, want)]
    if kind == 'div-int-enumerated':
        import itertools
        claims = []
        rngc = (-6, -3, -2, -1, 1, 2, 3, 4, 6, 9)
        for coefs in itertools.product(rngc, repeat=len(desc['shape'])):
            P = Polynomial([[c, *m] for c, m in zip(coefs, desc['shape'])])
            for tag, r in (('poly', P / desc['k']), ('rat', (RationalPolynomial(P) / desc['k']).numer)):
                d = _pd(r)
                for c, m in zip(coefs, desc['shape']):
                    claims.append(Eq(f'{tag}/int[{coefs},{"*".join(m) or "1"}]', d.get(tuple(sorted(m)), 0), Fraction(c, desc['k'])))
                if len(d) != len(coefs):
                    claims.append(Fail(f'{tag}/int:terms[{coefs}]', f'{coefs}/{desc["k"]}: result has monomials {sorted(d)}'))
        claims.append(Note('nontrivial', ''))
        return claims
    if kind == 'edge-ops':
        import sympy
        claims = [Note('nontrivial', '')]
        x, y, z = Polynomial.fromname('x'), Polynomial.fromname('y'), Polynomial.fromname('z')
        rx, ry = RationalPolynomial.fromname('x'), RationalPolynomial.fromname('y')

        def same(tag, fn, want, fkey):
            """fn() returns an object that denotes the sympy expression `want`."""
            try:
                r = fn()
                got = r.tosympy() if hasattr(r, 'tosympy') else sympy.sympify(r)
                ok = sympy.simplify(got - want) == 0
                detail = f'{tag}: denotes {got}, expected {want}'
            except Exception as e:  # noqa
                ok, detail = False, f'{tag}: raises {type(e).__name__}: {e}'
            if not ok:
                claims.append(Fail(tag, detail, fkey=fkey))

        def iszero(tag, fn, fkey):
            try:
                r = fn()
                ok = (r == 0) and not bool(r)
                detail = f'{tag}: the zero function is stored as {r!r}: == 0 is {r == 0}, bool is {bool(r)}'
            except Exception as e:  # noqa
                ok, detail = False, f'{tag}: raises {type(e).__name__}: {e}'
            if not ok:
                claims.append(Fail(tag, detail, fkey=fkey))
        X, Y = sympy.Symbol('x'), sympy.Symbol('y')
        # (a) exact zero tests, both directions
        iszero('(P(0)+x)*y - x*y', lambda: (Polynomial(0) + x) * y - x * y, 'edge|zero-not-recognised|accumulated')
        iszero('(P(0)+x)*(y+z) - x*(y+z)', lambda: (Polynomial(0) + x) * (y + z) - x * (y + z), 'edge|zero-not-recognised|accumulated')
        iszero('P([[1,y],[1,x]]) - (x+y)', lambda: Polynomial([[1, 'y'], [1, 'x']]) - (x + y), 'edge|zero-not-recognised|unsorted-constructor')
        # (b) a number combined with a zero rational polynomial
        same('(rx*ry - ry*rx) + 5', lambda: (rx * ry - ry * rx) + 5, sympy.Integer(5), 'edge|number-plus-zero-rational')
        same('7 - (rx - rx)', lambda: 7 - (rx - rx), sympy.Integer(7), 'edge|number-plus-zero-rational')
        same('((rx - rx) + 2) * rx', lambda: ((rx - rx) + 2) * rx, 2 * X, 'edge|number-plus-zero-rational')
        # (c) copy constructor
        same('RationalPolynomial(rx / ry)', lambda: RationalPolynomial(rx / ry), X / Y, 'edge|copy-constructor')
        # (d) powers 0 and of either sign
        same('x ** 0', lambda: x ** 0, sympy.Integer(1), 'edge|pow-zero')
        same('rx ** 0', lambda: rx ** 0, sympy.Integer(1), 'edge|pow-zero')
        same('(rx / ry) ** -2', lambda: (rx / ry) ** -2, Y ** 2 / X ** 2, 'edge|pow-negative')
        same('x ** -1', lambda: x ** -1, 1 / X, 'edge|polynomial-negative-power')
        same('1 / x', lambda: 1 / x, 1 / X, 'edge|number-over-polynomial')
        # (f) == between the two classes never equates different functions (either operand order, also !=)
        for tag, l, r in (('x == x/y', x, rx / ry), ('x/y == x', rx / ry, x), ('x*x == x*x/(3y)', x * x, (rx * rx) / (ry * 3)), ('x/y == y', rx / ry, y)):
            try:
                if (l == r) or not (l != r):
                    claims.append(Fail(f'eq-mixed[{tag}]', f'{tag} is True although the two objects denote different functions', fkey='edge|eq-mixed-classes'))
            except Exception:  # noqa  (refusing the comparison is not equating)
                pass
        # (e) the two classes in one expression
        same('(rx / ry) * x', lambda: (rx / ry) * x, X ** 2 / Y, 'edge|mixed-classes')
        same('x * (rx / ry)', lambda: x * (rx / ry), X ** 2 / Y, 'edge|mixed-classes')
        same('x + rx', lambda: x + rx, 2 * X, 'edge|mixed-classes')
        same('rx + x', lambda: rx + x, 2 * X, 'edge|mixed-classes-rat-first')
        return claims
    if kind == 'div-int-exact':
        k = desc['k']
        claims = [Note('nontrivial', '')]
        for tag, P in (('poly', Polynomial([[1, 'x']])), ('poly2', Polynomial([[2, 'x'], [3, 'x', 'y']])), ('rat', RationalPolynomial([[1, 'x']], [[1, 'y']]))):
            q = P / k
            back = q * k - P
            iszero = (back == 0) and not bool(back)
            if not iszero:
                claims.append(Fail(f'div-int-exact[{tag}]', f'({P} / {k}) * {k} - ({P}) is {back!r}: == 0 is {back == 0}, bool is {bool(back)} (division by an integer multiplies by the float 1/{k})',
                                   fkey='div-int|inexact-float-reciprocal'))
        return claims
    if kind == 'fork-poly':
        A = Polynomial([[V.var(f'a{i}'), *m] for i, m in enumerate(desc['A'])])
        B = Polynomial([[V.var(f'b{i}'), *m] for i, m in enumerate(desc['B'])])
        if V.symbolic:
            for mono in A.args + B.args:
                sym.cur().assume(mono[0].t != 0)           # class invariant: no stored zero
        op = desc['op']
        extra_claims = []
        if desc.get('accumulate'):
            terms = [Polynomial([list(mono)]) for mono in A.args]
            if desc['accumulate'] == 'ctor0':
                # the same polynomial handed to the list constructor with an explicit zero constant in front
                acc = Polynomial([[0]] + [list(mono) for mono in A.args])
            else:
                acc = {'int0': lambda: Polynomial(0), 'float0': lambda: Polynomial(0.0), 'args0': lambda: Polynomial([[0]])}[desc['accumulate']]()
                for t in terms:
                    acc = acc + t
            want_A = _pd(A)
            extra_claims += _dclaims('accumulated', _pd(acc), want_A)
            if acc == 0:
                extra_claims += [Eq(f'accumulated==0=>zero[{"*".join(k) or "1"}]', v, 0) for k, v in want_A.items()]
            if not bool(acc):
                extra_claims += [Eq(f'accumulated-falsy=>zero[{"*".join(k) or "1"}]', v, 0) for k, v in want_A.items()]
            # B (op) accumulated and accumulated (op) B
            dB_ = _pd(B)
            rb = B + acc if op == '+' else (B - acc if op == '-' else B * acc)
            wb = _dadd(dB_, want_A) if op == '+' else (_dadd(dB_, want_A, -1) if op == '-' else _dmul(dB_, want_A))
            extra_claims += _dclaims(f'B{op}accumulated', _pd(rb), wb)
            A = acc
        dA, dB = (_pd(A) if not desc.get('accumulate') else want_A), _pd(B)
        r = A + B if op == '+' else (A - B if op == '-' else A * B)
        want = _dadd(dA, dB) if op == '+' else (_dadd(dA, dB, -1) if op == '-' else _dmul(dA, dB))
        claims = extra_claims + _dclaims(f'poly{op}', _pd(r), want)
        # zero tests on this path: bool(r) must agree with 'all coefficients zero'
        nz = bool(r)
        if not nz:
            claims += [Eq(f'bool-false=>zero[{"*".join(k) or "1"}]', v, 0) for k, v in want.items()]
        for mono in r.args:
            if len(r.args) > 1 or len(mono) > 1:
                claims.append(Eq('no-stored-zero-marker', 1, 1))
        return claims
    if kind == 'fork-rat':
        NA = [[V.var(f'n{i}'), *m] for i, m in enumerate(desc['NA'])]
        DA = [[V.var(f'd{i}'), *m] for i, m in enumerate(desc['DA'])]
        NB = [[V.var(f'm{i}'), *m] for i, m in enumerate(desc['NB'])]
        same_den = desc['DA'] == desc['DB']
        DB = [[(DA[i][0] if same_den else V.var(f'e{i}')), *m] for i, m in enumerate(desc['DB'])]
        if V.symbolic:
            for mono in NA + DA + NB + DB:
                sym.cur().assume(mono[0].t != 0)
        X, Y = RationalPolynomial(NA, DA), RationalPolynomial(NB, DB)
        nA, dA, nB, dB = _pd(X.numer), _pd(X.denom), _pd(Y.numer), _pd(Y.denom)
        op = desc['op']
        if op in '+-':
            num, den = _dadd(_dmul(nA, dB), _dmul(nB, dA), 1 if op == '+' else -1), _dmul(dA, dB)
            r = X + Y if op == '+' else X - Y
        elif op == '*':
            num, den = _dmul(nA, nB), _dmul(dA, dB)
            r = X * Y
        else:
            num, den = _dmul(nA, dB), _dmul(dA, nB)
            r = X / Y
        if not isinstance(r, RationalPolynomial):
            return [Eq(f'zero-result[{"*".join(k) or "1"}]', v, 0) for k, v in num.items()] + [Eq('int-zero', r, 0)]
        claims = _dclaims(f'rat{op}', _dmul(_pd(r.numer), den), _dmul(num, _pd(r.denom)))
        if not bool(r):
            claims += [Eq(f'bool-false=>zero[{"*".join(k) or "1"}]', v, 0) for k, v in num.items()]
        return claims
    raise ValueError(kind)


# --------------------------------------------------------------------------- CrossHair

def extra(tier, seed, jobs):
    modules = chgen.build_modules(tier, seed)
    return chrunner.run_all(modules, jobs, 60 if tier == 'quick' else 120)


def replay_special(viol):
    import os, subprocess, sys, tempfile, shutil
    src = chgen.HEADER + viol.get('source', '')
    call = viol.get('values', {}).get('call')
    if not call or not viol.get('source'):
        return False
    d = tempfile.mkdtemp(prefix='kvch_replay_')
    try:
        path = os.path.join(d, 'replay_mod.py')
        open(path, 'w').write(src)
        ok, detail = chrunner._replay(path, viol['desc']['harness'], f'false when calling {call}')
        print(' ', detail)
        return ok
    finally:
        shutil.rmtree(d, ignore_errors=True)
