"""
C11 -- registered (compiled) expressions equal direct evaluation.

Program-level translation validation: expression trees over the documented operator table are
generated as Python source (``def f(a, b): return ...``), and for solver-term arguments the plain
function f(*args), ``alg.register(f)(*args)`` (TapeRecorder -> do_compile -> compiled glue that
calls the generated functions by name) and ``alg.register(symbolic=True)(f)(*args)`` (whole
expression generated symbolically) are executed; ONE query per case proves that the registered
results equal the direct result on every blade for all argument values.  All generated programs
use only the supported surface (infix and method forms of the operator table, dual/undual,
norm/normalized/sqrt inside their domain, grade selection, + - * with plain numbers on either
side, / number, integer powers -3..3, coefficient access, calls of other registered functions),
so a raising registered function is a violation as well.
"""
from __future__ import annotations

import itertools
import random

from ..core import Eq, Fail, Note
from .. import pat, sym
from ..kapi import make_alg, mv, coeffs, mv_eq_claims, eq_claims

PROP = 'C11'
LEVEL = 'translation_validation'
ENGINES = ['A']
FUNCTIONS = ['TapeRecorder (all operator methods, __getattr__, grade, __pow__, dual/undual, norm/normalized)', 'Registry.__getitem__/__call__',
             'do_compile', 'Algebra.register', 'OperatorDict with codegen=user function (symbolic=True)', 'do_codegen', 'compiled glue functions']
ASSUMPTIONS = ['coefficients are reals; denominators non-zero; radicands non-negative', 'programs are enumerated/sampled (bound); argument values symbolic',
               'a direct evaluation that itself raises (e.g. inverse of an identically singular intermediate) makes the case void']
BOUNDS = {'quick': 'all depth-1 trees + 450 sampled depth-2 trees (1-2 arguments) x 2 argument patterns, algebras R2, R1,1, 2D-PGA, R3; register(symbolic=True) on d=2 only; 48 histories of four registered functions on one algebra (called again after all were compiled); crossed nesting of numeric and symbolic registered functions; truth value / equality inside f (lenient); every spelling of the grade-3 blade; grade selections in any order; coefficient access combined by + - * / on either side, scalar-valued functions; nested registered functions over three storage orders of the same blades (all four mode combinations in d=2)',
          'thorough': 'all depth-2 trees on three patterns, 1500 random depth-3 trees, 320 multi-function histories'}
OUTSIDE = ['multivector API outside the supported list (only "raises or equal" is demanded there and is not generated)', 'lambdas (cannot be registered: <lambda> is not an identifier)']
OPTS = {'rlimit': 300_000_000, 'canary_every': 15, 'case_budget_s': 30}
CHUNKS_PER_WORKER = 12

INFIX = ['*', '^', '|', '&', '>>', '@', '+', '-', '/']
METHODS = ['gp', 'op', 'ip', 'rp', 'sw', 'proj', 'add', 'sub', 'div', 'cp', 'acp', 'lc', 'rc', 'sp']


def unary_forms(d, nondeg, r):
    u = ['~{x}', '-{x}', '{x}.reverse()', '{x}.involute()', '{x}.conjugate()', '{x}.normsq()', '{x}.inv()',
         '{x}.hodge()', '{x}.unhodge()', "{x}.dual(kind='hodge')",
         '{x}.grade(0)', '{x}.grade(1)', '{x}.grade(1, 2)', '{x}.grade((0, 2))',
         '{x} ** 0', '{x} ** 1', '{x} ** 2', '{x} ** 3', '{x} ** -1', '{x} ** -2',
         '2 * {x}', '{x} * 3', '{x} / 2', '{x} + 2', '3 + {x}', '{x} - 2', '5 - {x}']
    if nondeg:
        u += ['{x}.polarity()', '{x}.unpolarity()', '{x}.dual()', '{x}.undual()']
    elif r == 1:
        u += ['{x}.dual()', '{x}.undual()']
    return u


def binary_forms():
    return [f'({{x}} {op} {{y}})' for op in INFIX] + [f'{{x}}.{m}({{y}})' for m in METHODS]


def access_forms(alg_names):
    # a coefficient of one argument combined with the other argument by every operator that takes a number on that side
    n1, n3 = alg_names[1], alg_names[3]
    return ([f'{{x}}.{n} * {{y}}' for n in alg_names] + [f'{{y}} * {{x}}.{n}' for n in alg_names[:2]]
            + [f'{{x}}.{n1} + {{y}}', f'{{y}} + {{x}}.{n3}', f'{{x}}.{n3} - {{y}}', f'{{y}} - {{x}}.{n1}', f'{{y}} / {{x}}.{n1}', f'{{x}}.{n1} / {{y}}',
               f'-{{x}}.{n1} * {{y}}', f'({{x}}.{n1} * {{x}}.{n3} + 1) * {{y}}', f'{{x}}.{n3} ** 2 * {{y}}', f'({{x}}.{n1} / {{y}}.{n1}) * {{y}}',
               f'({{x}} * {{y}}).{n3} * {{x}} + {{y}}.{n1}'])


def scalar_result_forms(alg_names):
    # functions whose result is a coefficient expression: coefficient access, sums, products and division by a number are all on the
    # supported list, and both registration modes return the scalar multivector holding the number the plain function returns
    n1, n3 = alg_names[1], alg_names[3]
    return [f'a.{n1}', f'a.{n1} / b.{n1}', f'a.{n1} + 2 * b.{n3}', f'(a * b).{n3} - a.{n1} * b.{n1}']


def cases(tier, seed):
    rng = random.Random(seed * 7919 + 11)
    out = []
    cfgs = [dict(p=2), dict(p=1, q=1), dict(p=1, r=1), dict(p=3)]
    for cfg in cfgs:
        d = sum(cfg.values())
        r = cfg.get('r', 0)
        U = unary_forms(d, r == 0, r)
        B = binary_forms()
        names = ['e', 'e1', 'e2', 'e12'] if not r else ['e', 'e0', 'e1', 'e01']
        A = access_forms(names)
        progs = []
        # depth 1
        for u in U:
            progs.append((u.format(x='a'), 1))
        for b in B + A:
            progs.append((b.format(x='a', y='b'), 2))
        for f_ in scalar_result_forms(names):
            progs.append((f_, 2 if 'b' in f_ else 1))
        progs.append(('a.norm()', 1)); progs.append(('a.normalized()', 1)); progs.append(('a.sqrt()', 1))
        # outside the supported list (a number on the LEFT of an operator other than * + -): the registered function may raise,
        # but must never return another value than the plain function
        for form in ('3 >> a', '2 @ a', '2 | a', '2 & a', '2 ^ a', '(2 >> a) + b', '3 @ (a * b)', '2 / a'):
            progs.append(('LENIENT:' + form, 2 if 'b' in form else 1))
        # coefficient access by a NON-canonical spelling of the blade
        if d >= 2:
            sw_ = names[3][:1] + names[3][1:][::-1]
            progs.append((f'a.{sw_} * b', 2)); progs.append((f'b * a.{sw_} + a', 2))
        if d >= 3:
            # every spelling of the grade-3 blade: cyclic rotations are EVEN permutations that are not the identity
            import itertools as _it
            w = ''.join(format(i + (0 if r == 1 else 1), 'x') for i in range(3))
            for pm in _it.permutations(w):
                sp = 'e' + ''.join(pm)
                progs.append((f'a.{sp} * b + a', 2))
            progs.append((f'a.e{w[1]}{w[2]}{w[0]} * a.e{w[2]}{w[0]}{w[1]} + b', 2))
        # grade selections spelled in any order / with repetitions
        progs += [('a.grade(2, 1) + b', 2), ('a.grade((1, 0)) * b', 2), ('(a * b).grade(1, 1)', 2), ('a.grade(2, 0, 1) - b.grade(0)', 2)]
        progs.append(('a.norm() + 0', 1)); progs.append(('a.normalized() * 1', 1))       # same, on mixed-grade operands (see below)
        # depth 2
        d2 = []
        for u1 in U:
            for u2 in U:
                d2.append((u1.format(x='(' + u2.format(x='a') + ')'), 1))
            for b in B:
                d2.append((u1.format(x=b.format(x='a', y='b')), 2))
        for b in B:
            for u in U:
                d2.append((b.format(x='(' + u.format(x='a') + ')', y='b'), 2))
                d2.append((b.format(x='a', y='(' + u.format(x='b') + ')'), 2))
            for b2 in B:
                d2.append((b.format(x=b2.format(x='a', y='b'), y='a'), 2))
        if tier == 'quick':
            d2 = rng.sample(d2, 450 // len(cfgs) + 20)
        elif d == 3:
            d2 = rng.sample(d2, 1500)
        progs += d2
        # calls of other registered functions
        progs += [('CALL:a * b=>g(a, b) + g(b, a)', 2), ('CALL:~a=>g(a) * g(b)', 2), ('CALL:a ^ b=>g(a, g(a, b))', 2)]
        # ... registered in the OTHER mode than the caller (numeric tape calling a symbolic=True function and vice versa),
        # with coefficient access / sums / products of the nested result
        progs += [('CALLX:a | b=>g(a, b).e * a', 2), ('CALLX:a | b=>a + g(a, b)', 2), ('CALLX:a * b=>g(a, b) ^ b', 2), ('CALLX:~a=>g(a) * b - g(b)', 2),
                  ('CALLX:a ^ b=>2 * g(a, b) + g(b, a).grade(2)', 2)]
        # constant multivectors captured from the enclosing scope, and a plain number handed to a nested registered function:
        # outside the supported list (may raise, may never return another value)
        progs += [('LENIENT:CONST:(E1 * a).e1 * a', 1), ('LENIENT:CONST:(E1 * a).e1 + b', 2), ('LENIENT:CONST:E1 * a + b', 2), ('LENIENT:CONST:a * E1 - b', 2),
                  ('LENIENT:CONST:(K >> a) + a', 1), ('LENIENT:CONST:a.e1 * K + a', 1)]
        progs += [('LENIENT:CALLX:a * b + a=>g(a, 2).e * b', 2), ('LENIENT:CALL:a * b + a=>g(a, 2).e * b', 2), ('LENIENT:CALL:a * b + a=>g(2, a) + b', 2)]
        # a lambda is a function too
        progs += [('LAMBDA:a * b + a', 2), ('LAMBDA:~a', 1)]
        # truth value and equality of multivectors inside f: outside the supported list (may raise, may never differ)
        progs += [('LENIENT:BODY:w = a.grade(1) ^ b;return w if w else a + b', 2), ('LENIENT:BODY:return a * 2 if a == b else a - b', 2),
                  ('LENIENT:BODY:return a + b if a != b else a', 2),
                  ('LENIENT:BODY:if a | b:;    return a;return b', 2)]
        if tier == 'thorough':
            for _ in range(1500 // len(cfgs)):
                e = _random_tree(rng, U, B, 3)
                progs.append((e, 2))
        pats_ = _patterns(d, rng)
        for i, (src, nargs) in enumerate(progs):
            npat = 2 if tier == 'quick' else 3
            for j in range(npat):
                keys = [list(rng.choice(pats_)) for _ in range(nargs)]
                if src in ('a.norm()', 'a.normalized()'):
                    keys = [[k for k in range(2 ** d) if bin(k).count('1') == 1]]       # a vector: normsq is a scalar
                if src in ('a.norm() + 0', 'a.normalized() * 1'):
                    # x*~x is NOT a pure scalar: scalar + vector + pseudoscalar (its norm is the sqrt of a Study number)
                    keys = [[0, 1, 2 ** d - 1]] if j == 0 else [[0, 2, 1]]
                    modes = ['plain']
                    out.append(dict(kind='program', cfg=cfg, src=src, nargs=nargs, keys=keys, modes=modes))
                    continue
                if src == 'a.sqrt()':
                    keys = [[0, 2 ** d - 1]]
                import re as _re
                if d >= 3 and _re.search(r'a\.e[0-9a-f]{3}\b', src) and 7 not in keys[0]:
                    keys[0] = list(keys[0])[:3] + [7]          # the blade that is read must be stored
                if d >= 3 and any(t in src for t in ('inv()', '** -', ' / ', '.div(')):
                    # inverses of intermediate results: keep the operands sparse (generation time)
                    keys = [list(rng.choice([p for p in pats_ if len(p) <= 3])) for _ in range(nargs)]
                modes = ['plain']
                if d == 2 and ((i + j) % 3 == 0 or src.startswith(('CALLX:', 'LENIENT:BODY:'))):
                    modes.append('symbolic')
                out.append(dict(kind='program', cfg=cfg, src=src, nargs=nargs, keys=keys, modes=modes))
    # several registered functions on ONE algebra (shared name space): compile and call all, then call all again
    pool = ['(a * 2) ^ b', '(a | b) / -2', 'a * -1 + b', '(a + 1) * b', '3 - a', '(a * 0.5) >> b', 'a.grade(1) * 2 + b', '(a ^ b) * -3', 'a / 2 + b / -2',
            '-2 * a - b', '(a & b) + 2', 'b * 4 - a * -4', 'a ** 2 * -1', '(a - 7) | b', 'a * 7 + b * -7']
    for cfg in cfgs:
        d = sum(cfg.values())
        pats_ = _patterns(d, rng)
        for _ in range(12 if tier == 'quick' else 80):
            srcs = rng.sample(pool, 4)
            out.append(dict(kind='multi', cfg=cfg, srcs=srcs, keys=[list(rng.choice(pats_)), list(rng.choice(pats_))]))
    # nested registered functions called with the SAME blades stored in different orders, interleaved: the compiled caller refers
    # to the inner function's generated code by name, so every storage order needs its own entry
    for cfg in cfgs:
        d = sum(cfg.values())
        base = [tuple(k for k in range(2 ** d) if bin(k).count('1') == 1), tuple(range(2 ** d))[:4], (0, 2 ** d - 1, 1)]
        for gsrc, fsrc in (('a * b', 'g(a, b) + a'), ('a ^ b', 'g(a, g(a, b)) - b'), ('~a', 'g(a) * g(b)'), ('a | b', '2 * g(b, a) + g(a, b)')):
            for kp in base:
                kp = list(kp)
                orders = [kp, kp[::-1], kp[1:] + kp[:1]]
                for inner, outer in (((False, False), (True, True), (False, True), (True, False)) if d == 2 else ((False, False),)):
                    out.append(dict(kind='nested-order', cfg=cfg, g=gsrc, f=fsrc, orders=orders, inner_symbolic=inner, outer_symbolic=outer))
    return out


def _run_multi(desc, V):
    alg = make_alg(desc['cfg'])
    plain = make_alg(desc['cfg'])
    from kingdon.multivector import MultiVector
    a, b = mv(alg, V, 'a', desc['keys'][0]), mv(alg, V, 'b', desc['keys'][1])
    pa = MultiVector.fromkeysvalues(plain, tuple(a.keys()), list(a.values()))
    pb = MultiVector.fromkeysvalues(plain, tuple(b.keys()), list(b.values()))
    regs, wants = [], []
    claims = []
    for i, src in enumerate(desc['srcs']):
        f, _ = _compile(src, 2, f'multi_{i}')
        try:
            want = _as_coeffs(f(pa, pb))
        except Exception:
            regs.append(None); wants.append(None)
            continue
        rf = alg.register(f)
        regs.append(rf); wants.append(want)
        claims += eq_claims(f'first-call[{i}]', _as_coeffs(rf(a, b)), want, fkey='multi|register|first-call')
    for i, (rf, want) in enumerate(zip(regs, wants)):
        if rf is None:
            continue
        claims += eq_claims(f'second-call[{i}]', _as_coeffs(rf(a, b)), want, fkey='multi|register|call-after-other-functions-compiled')
    claims.append(Eq('reached', 1, 1))
    return claims


def _run_nested_order(desc, V):
    alg = make_alg(desc['cfg'])
    plain = make_alg(desc['cfg'])
    from kingdon.multivector import MultiVector
    gargs = 2 if 'b' in desc['g'] else 1
    g, _ = _compile(desc['g'], gargs, 'g')
    rg = alg.register(g, symbolic=True) if desc['inner_symbolic'] else alg.register(g)
    ns_p, ns_r = {'g': g}, {'g': rg}
    exec(f"def nested_f(a, b):\n    return {desc['f']}\n", ns_p)
    exec(f"def nested_f(a, b):\n    return {desc['f']}\n", ns_r)
    fp = ns_p['nested_f']
    rf = alg.register(ns_r['nested_f'], symbolic=True) if desc['outer_symbolic'] else alg.register(ns_r['nested_f'])
    tag = f"inner={'symbolic' if desc['inner_symbolic'] else 'plain'},outer={'symbolic' if desc['outer_symbolic'] else 'plain'}"
    ops = []
    for j, ka in enumerate(desc['orders']):
        a, b = mv(alg, V, f'a{j}', ka), mv(alg, V, f'b{j}', desc['orders'][(j + 1) % len(desc['orders'])])
        ops.append((a, b))
    claims = []
    # schedule: inner function alone on every order, caller on every order, then everything again in reverse
    steps = [('g', j) for j in range(len(ops))] + [('f', j) for j in range(len(ops))] + [('f', j) for j in reversed(range(len(ops)))] + [('g', 0)]
    for n, (which, j) in enumerate(steps):
        a, b = ops[j]
        pa = MultiVector.fromkeysvalues(plain, tuple(a.keys()), list(a.values()))
        pb = MultiVector.fromkeysvalues(plain, tuple(b.keys()), list(b.values()))
        try:
            want = _as_coeffs((g(pa, pb) if gargs == 2 else g(pa)) if which == 'g' else fp(pa, pb))
        except Exception:  # noqa
            continue
        try:
            got = _as_coeffs((rg(a, b) if gargs == 2 else rg(a)) if which == 'g' else rf(a, b))
        except Exception as e:  # noqa
            claims.append(Fail(f'nested-order[{n}]:raises', f'step {n} ({which} on storage order {j}, {tag}) raised {type(e).__name__}: {str(e)[:100]}',
                               fkey='nested-order|raises'))
            continue
        claims += eq_claims(f'nested-order[{n}:{which}{j}]', got, want, fkey='nested-order|value')
    claims.append(Eq('reached', 1, 1))
    return claims


def _patterns(d, rng):
    P = [tuple(range(2 ** d))]
    P += [tuple(k for k in range(2 ** d) if bin(k).count('1') == g) for g in range(1, d + 1)]
    P += [tuple(k for k in range(2 ** d) if bin(k).count('1') % 2 == 0)]
    P += pat.RND(d, 6, rng, max_len=4, min_len=1)
    return [p for p in P if p]


def _random_tree(rng, U, B, depth):
    if depth == 0 or rng.random() < 0.2:
        return rng.choice(['a', 'b'])
    if rng.random() < 0.45:
        return rng.choice(U).format(x='(' + _random_tree(rng, U, B, depth - 1) + ')')
    return rng.choice(B).format(x='(' + _random_tree(rng, U, B, depth - 1) + ')', y='(' + _random_tree(rng, U, B, depth - 1) + ')')


def _compile(src, nargs, name):
    args = ', '.join('ab'[:nargs]) if nargs <= 2 else 'a, b, c'
    ns = {}
    if src.startswith('LAMBDA:'):
        f = eval(f'lambda {args}: {src[7:]}', ns)
        return f, ns
    if src.startswith('CONST:'):
        src = src[6:]
    if src.startswith('BODY:'):
        body = '\n'.join('    ' + ln for ln in src[5:].split(';'))
        exec(f'def {name}({args}):\n{body}\n', ns)
    else:
        exec(f'def {name}({args}):\n    return {src}\n', ns)
    return ns[name], ns


def _as_coeffs(x):
    from kingdon.multivector import MultiVector
    if isinstance(x, MultiVector):
        return coeffs(x)
    if isinstance(x, (tuple, list)):
        raise TypeError('sequence result')
    return {0: x}


def run_case(desc, V):
    if desc['kind'] == 'multi':
        return _run_multi(desc, V)
    if desc['kind'] == 'nested-order':
        return _run_nested_order(desc, V)
    src, nargs = desc['src'], desc['nargs']
    lenient = src.startswith('LENIENT:')
    if lenient:
        src = src[8:]
    name = 'f_' + format(abs(hash(src)) % (10 ** 8), 'd')
    claims = []
    domain = []
    results = {}
    for mode in ['direct'] + desc['modes']:
        alg = make_alg(desc['cfg'])          # fresh algebra per evaluation mode
        args = [mv(alg, V, 'ab'[i], desc['keys'][i]) for i in range(nargs)]
        if src == 'a.sqrt()' and V.symbolic and mode == 'direct':
            sym.cur().assume(args[0].values()[0].t > 0, 'scalar part > 0 (sqrt domain)')
        consts = {}
        if 'CONST:' in desc['src']:
            consts = {'E1': alg.blades[alg.bin2canon[1]], 'K': alg.multivector(keys=(0, 1, 2 ** alg.d - 1) if alg.d else (0,), values=[2, 3, 5][: 3 if alg.d else 1])}
        if src.startswith('CALL:') or src.startswith('CALLX:'):
            crossed = src.startswith('CALLX:')
            gsrc, fsrc = src.split(':', 1)[1].split('=>')
            gargs = 2 if 'b' in gsrc else 1
            g, _ = _compile(gsrc, gargs, 'g')
            if mode == 'direct':
                gg = g
            else:
                inner_symbolic = (mode == 'symbolic') != crossed
                gg = alg.register(g, symbolic=True) if inner_symbolic else alg.register(g)
            ns = {'g': gg}
            exec(f'def {name}(a, b):\n    return {fsrc}\n', ns)
            f = ns[name]
        else:
            f, fns = _compile(src, nargs, name)
            fns.update(consts)
        try:
            if mode == 'direct':
                results[mode] = f(*args)
            elif mode == 'plain':
                results[mode] = alg.register(f)(*args)
            else:
                results[mode] = alg.register(f, symbolic=True)(*args)
        except ZeroDivisionError as e:
            results[mode] = e
        except sym.ValueBranch:
            raise
        except Exception as e:  # noqa
            if mode == 'direct':
                return [Note('void', f'direct evaluation raises {type(e).__name__}: {str(e)[:80]}'), Eq('void', 1, 1)]
            results[mode] = e
    direct = results['direct']
    if isinstance(direct, Exception):
        # direct evaluation divides by an identically-zero quantity: nothing to compare
        return [Note('void', 'direct evaluation raises ZeroDivisionError'), Eq('void', 1, 1)]
    try:
        want = _as_coeffs(direct)
    except TypeError:
        return [Note('void', 'direct result is not a multivector'), Eq('void', 1, 1)]
    for mode in desc['modes']:
        r = results[mode]
        tag = 'register' if mode == 'plain' else 'register(symbolic=True)'
        if isinstance(r, Exception) and lenient:
            claims.append(Note(tag, 'raises for an unsupported form (allowed)'))
            continue
        if isinstance(r, Exception):
            claims.append(Fail(f'{tag}:raises', f'{tag} of `{src}` raised {type(r).__name__}: {str(r)[:100]} but the plain function returns',
                               fkey=f'program|{tag}|raises:{type(r).__name__}|{_feature(src).replace("-noncanonical-spelling", "")}'))
            continue
        try:
            got = _as_coeffs(r)
        except TypeError:
            claims.append(Fail(f'{tag}:type', f'{tag} of `{src}` returned {type(r).__name__}', fkey=f'program|{tag}|type'))
            continue
        claims += eq_claims(f'{tag}', got, want, fkey=f'program|{tag}|value|{_feature(src)}')
    claims.append(Eq('reached', 1, 1))
    return claims


def _feature(src):
    """coarse syntactic feature used in failure keys (which part of the supported surface is involved)."""
    feats = []
    import re
    if re.search(r'\*\* -\d', src):
        feats.append('negative-power')
    if re.search(r'\.e[0-9a-f]*\b', src):
        feats.append('coefficient-access')
    for m in ('norm()', 'normalized()', 'sqrt()'):
        if '.' + m in src:
            feats.append(m[:-2])
    if src.startswith('CALLX:'):
        # (a coefficient of the nested result times a multivector fails under symbolic=True for the same reason as any
        #  coefficient access there: the known finding about RationalPolynomial coefficients)
        return 'coefficient-access' if re.search(r'\.e[0-9a-f]*\b', src) else 'nested-registered-other-mode'
    if 'BODY:' in src:
        return 'truth-value-or-equality'
    if 'CONST:' in src:
        return 'captured-constant-multivector'
    if src.startswith('LAMBDA:'):
        return 'lambda'
    if re.search(r'g\((a, 2|2, a)\)', src):
        return 'nested-call-with-number'
    if src.startswith('CALL:'):
        feats.append('nested-registered')
    # one feature per key, in a fixed priority order, so that the set of possible keys does not
    # depend on which combinations a seed happens to sample
    import re as _re
    m = _re.search(r'\.e([0-9a-f]{2,})\b', src)
    if m and list(m.group(1)) != sorted(m.group(1)):
        return 'coefficient-access-noncanonical-spelling'
    for f in ('sqrt', 'norm', 'normalized', 'coefficient-access', 'negative-power', 'nested-registered'):
        if f in feats:
            return f
    return 'operators'
