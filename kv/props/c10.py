"""
C10 -- code is generated at most once per operator and key pattern.

The property is about EVENTS; they are observed from outside /repo (counting wrappers around
do_codegen, do_compile, lambdify, func_builder and the builtin compile() as seen from
kingdon.codegen, plus len(alg.<op>)).  Per case: one operator and key pattern is called once
(events allowed), then again with FRESH, independent solver-term coefficients, then with concrete
int, float, Fraction, numpy-array and sympy coefficients, with calls on other patterns interleaved;
every repeat must cause zero events and leave len(alg.<op>) unchanged.
The solver's part: repeats on solver terms run in no-fork mode, where any inspection of a
coefficient raises -- a repeat that completes has taken the one path every value takes, so 'no
event' holds for all coefficient values of that type.  If the cache key embeds values, the
membership test compares solver terms; the driver then switches to fork mode, the solver finds the
feasible 'keys differ' path and its model is replayed on exact rationals.
"""
from __future__ import annotations

import random
from fractions import Fraction

import numpy as np

from ..core import Eq, Fail, Note
from .. import pat, ops, sym, kapi
from ..kapi import make_alg, mv, coeffs

PROP = 'C10'
LEVEL = 'other'
ENGINES = ['A', 'F']
FUNCTIONS = ['OperatorDict.__getitem__ / UnaryOperatorDict.__getitem__ / Registry.__getitem__ (membership test before do_codegen/do_compile)',
             'OperatorDict.__call__/_call_binary', 'do_codegen', 'do_compile', 'lambdify', 'func_builder']
ASSUMPTIONS = ['sequential calls only', 'coefficient kinds: solver terms (stand for every real value), int, float, Fraction, numpy float64 arrays, sympy symbols, all-zero and special values (0, 1, -1, bools, 0.0, numpy scalars); plain-number operands: a solver term and 17 enumerated special values/types']
BOUNDS = {'quick': '29 operators + a registered function x grade-union / random sparse patterns d<=3 x 6 coefficient kinds x histories of <=7 repeats with other patterns interleaved; long histories (200-400 other patterns); histories with failing evaluations / failing generations; per (operator, pattern) generation count; plain-number operands (a solver term and 17 special numbers / types, either side); nested registered functions; one pattern repeated in one and the same unusual spelling (blade names / range / numpy integers, 4 algebras)',
          'thorough': 'more patterns per operator, 3x longer long-histories'}
OUTSIDE = ['concurrent first calls (threads)', 'coefficient types not listed']
OPTS = {'rlimit': 100_000_000, 'canary_every': 0, 'max_paths': 16}
EXPLANATION = __doc__
CHUNKS_PER_WORKER = 8

BIN = ['gp', 'op', 'ip', 'lc', 'rc', 'sp', 'cp', 'acp', 'rp', 'add', 'sub', 'sw', 'proj', 'div']
UN = ['neg', 'reverse', 'involute', 'conjugate', 'hodge', 'unhodge', 'polarity', 'unpolarity', 'normsq', 'inv',
      'outerexp', 'outersin', 'outercos', 'outertan', 'sqrt']
KINDS = ['sv', 'int', 'float', 'fraction', 'ndarray', 'sympy', 'zeros', 'special']


def cases(tier, seed):
    rng = random.Random(seed * 7919 + 10)
    out = []
    cfgs = [dict(p=2), dict(p=1, q=1), dict(p=3), dict(p=2, q=1)]
    n = 2 if tier == 'quick' else 25
    for cfg in cfgs:
        d = sum(cfg.values())
        P = [p for p in pat.GRD(d, max_grades=2) if p and len(p) <= 4] + pat.RND(d, 12, rng, max_len=3, min_len=1)
        for op in BIN + UN + ['registered']:
            for _ in range(n):
                ka = list(rng.choice(P))
                kb = list(rng.choice(P))
                if op == 'sqrt':
                    ka = [0, rng.randrange(1, 2 ** d)]
                out.append(dict(kind='repeat', cfg=cfg, op=op, ka=ka, kb=kb, other=list(rng.choice(P)), hseed=rng.randrange(10 ** 6)))
    # plain numbers as operands (either side): the cache key may not depend on the VALUE or type of the number
    for cfg in cfgs:
        d = sum(cfg.values())
        for op in BIN:
            for _ in range(1 if tier == 'quick' else 6):
                out.append(dict(kind='scalar-operand', cfg=cfg, op=op, ka=list(rng.choice(pat.RND(d, 6, rng, max_len=3, min_len=1))), hseed=rng.randrange(10 ** 6)))
    # the same pattern repeated in one and the same unusual spelling (names / range / numpy integers)
    for cfg in (dict(p=2), dict(p=2, r=1), dict(p=3), dict(p=3, r=1)):
        out.append(dict(kind='key-spellings', cfg=cfg))
    # registered(symbolic=True) functions of one and three arguments (the n-ary call path), and a counting wrapper
    for cfg in (dict(p=2), dict(p=2, r=1), dict(p=3)):
        for op in ('registered-sym1', 'registered-sym3', 'wrapped-gp', 'wrapped-inv', 'wrapped-registered', 'nested-registered', 'nested-registered-outer-first'):
            for _ in range(2 if tier == 'quick' else 8):
                dd = sum(cfg.values())
                out.append(dict(kind='nary-history', cfg=cfg, op=op, ka=rng.sample(range(2 ** dd), 2), kb=rng.sample(range(2 ** dd), 2), hseed=rng.randrange(10 ** 6)))
    # histories with FAILING calls: an evaluation that raises (singular value), a generation that raises (null
    # pattern): nothing generated so far - incl. the operators used inside a composite - may be generated again
    for cfg in (dict(p=2), dict(p=2, r=1), dict(p=3, r=1), dict(p=1, q=1)):
        for op in ('inv', 'div', 'registered-unit', 'normalized'):
            out.append(dict(kind='failing-history', cfg=cfg, op=op, hseed=rng.randrange(10 ** 6)))
    # long histories: one pattern, then MANY other patterns on the same operator, then the first again
    for cfg, op, n in ((dict(p=3), 'gp', 200), (dict(p=3), 'add', 200), (dict(p=3, r=1), 'reverse', 400), (dict(p=3), 'registered', 150),
                       (dict(p=2, q=1), 'neg', 200)):
        out.append(dict(kind='long-history', cfg=cfg, op=op, n=n if tier == 'quick' else 3 * n, hseed=rng.randrange(10 ** 6)))
    return out


def _run_nary(desc, V):
    from kingdon.multivector import MultiVector
    kapi.install_recorder()
    kapi.reset_generation_counts()
    op = desc['op']
    cfg = dict(desc['cfg'])
    if op.startswith('wrapped'):
        cfg['wrapper'] = 'counting'
    alg = make_alg(cfg)
    rng = random.Random(desc['hseed'])
    ns = {}
    exec('def reg_one(x):\n    return x * ~x\n'
         'def reg_three(x, y, z):\n    return x * y + z\n'
         'def reg_two(x, y):\n    return (x | y) + (x ^ y)\n', ns)
    if op.startswith('nested-registered'):
        # a registered function used inside two other registered functions: its code for one key pattern is generated once,
        # whether it is first needed directly or while an outer function is compiled
        inner = alg.register(ns['reg_two'])
        ns2 = {'inner': inner}
        exec('def reg_outer(x, y):\n    return inner(x, y) + x\n'
             'def reg_outer2(x, y):\n    return inner(x, y) * y\n', ns2)
        outer, outer2 = alg.register(ns2['reg_outer']), alg.register(ns2['reg_outer2'])
        order = [inner, outer, outer2] if op == 'nested-registered' else [outer, inner, outer2]
        claims = [Note('nontrivial', '')]
        mk = lambda kind, tag: [MultiVector.fromkeysvalues(alg, tuple(pats_[i]), _values(kind, V, f'{tag}{i}', len(pats_[i]), rng)) for i in range(2)]
        pats_ = [desc['ka'], desc['kb']]
        for j, g in enumerate(order):
            g(*mk('sv', f'first{j}'))                    # first calls: generation allowed (once per function and pattern)
        for i, kind in enumerate(['fraction', 'sv', 'int', 'float']):
            for j, g in enumerate(order):
                before = kapi.recorder_counts()
                g(*mk(kind, f'rep{i}_{j}'))
                after = kapi.recorder_counts()
                diff = {k: after[k] - before[k] for k in after if after[k] != before[k]}
                if diff:
                    claims.append(Fail(f'events-on-repeat[{i}:{kind}:{j}]', f'{op}: repeat of function {j} with {kind} coefficients caused {diff}', fkey=f'nary-history|{op}|events'))
        claims += _twice_claims(alg, op)
        claims.append(Eq('history-completed', 1, 1))
        return claims
    if op == 'registered-sym1':
        f, nargs = alg.register(ns['reg_one'], symbolic=True), 1
    elif op == 'registered-sym3':
        f, nargs = alg.register(ns['reg_three'], symbolic=True), 3
    elif op == 'wrapped-registered':
        f, nargs = alg.register(ns['reg_two']), 2
    elif op == 'wrapped-gp':
        f, nargs = (lambda x, y: x * y), 2
    else:
        f, nargs = (lambda x: x.inv()), 1
    pats_ = [desc['ka'], desc['kb'], desc['ka']]

    def call(kind, tag):
        args = [MultiVector.fromkeysvalues(alg, tuple(pats_[i]), _values(kind, V, f'{tag}{i}', len(pats_[i]), rng)) for i in range(nargs)]
        return f(*args)

    claims = [Note('nontrivial', '')]
    kinds0 = ['int'] if op.startswith('wrapped') else ['sv']       # the wrapper route is the numeric one
    try:
        call(kinds0[0], 'first')
    except ZeroDivisionError:
        return [Eq('void', 1, 1)]
    w = alg.wrapper
    for i, kind in enumerate(['fraction', 'float', 'int', 'sv', 'int']):
        before = kapi.recorder_counts()
        wb = dict(getattr(w, 'applied', {}))
        try:
            call(kind, f'rep{i}')
        except ZeroDivisionError:
            continue
        after = kapi.recorder_counts()
        diff = {k: after[k] - before[k] for k in after if after[k] != before[k]}
        if diff:
            claims.append(Fail(f'events-on-repeat[{i}:{kind}]', f'{op}: repeat with {kind} coefficients caused {diff}', fkey=f'nary-history|{op}|events'))
        wa = getattr(w, 'applied', {})
        again = {n: wa[n] - wb.get(n, 0) for n in wa if wa[n] != wb.get(n, 0)}
        if again:
            claims.append(Fail(f'wrapper-applied-on-repeat[{i}:{kind}]', f'{op}: the wrapper (JIT) was applied again on a repeat: {again}', fkey=f'nary-history|{op}|wrapper-reapplied'))
    more = {n: c for n, c in getattr(w, 'applied', {}).items() if c > 1}
    if more:
        claims.append(Fail('wrapper-applied-twice', f'{op}: generated functions handed to the wrapper more than once: {more}', fkey=f'nary-history|{op}|wrapper-reapplied'))
    claims += _twice_claims(alg, op)
    claims.append(Eq('history-completed', 1, 1))
    return claims


def _run_failing(desc, V):
    from kingdon.multivector import MultiVector
    kapi.install_recorder()
    kapi.reset_generation_counts()
    alg = make_alg(desc['cfg'])
    op = desc['op']
    d = alg.d
    order = list(alg.canon2bin.values())
    vec = [k for k in order if bin(k).count('1') == 1]
    claims = [Note('nontrivial', '')]

    def target(x):
        if op == 'inv':
            return x.inv()
        if op == 'div':
            return x / x
        if op == 'normalized':
            return x.normalized()
        return regd(x)

    if op == 'registered-unit':
        ns = {}
        exec('def reg_unit(x):\n    return x / x.normsq()\n', ns)
        regd = alg.register(ns['reg_unit'])
    good = MultiVector.fromkeysvalues(alg, tuple(vec), [V.var(f'g{i}') for i in range(len(vec))])
    sing = MultiVector.fromkeysvalues(alg, tuple(vec), [0 for _ in vec])              # same key pattern, singular VALUE
    null_keys = tuple(k for k in vec if alg.signs[k, k] == 0)                          # a pattern whose inverse fails at GENERATION time
    try:
        target(good)                          # first call: generation allowed
    except ZeroDivisionError:
        return [Eq('void', 1, 1)]
    steps = []
    for label, arg in (('singular-value', sing), ('null-pattern', MultiVector.fromkeysvalues(alg, null_keys, [V.var(f'n{i}') for i in range(len(null_keys))]) if null_keys else None)):
        if arg is None:
            continue
        try:
            target(arg)
        except (ZeroDivisionError, FloatingPointError, ValueError, NameError):
            pass
        steps.append(label)
        before = kapi.recorder_counts()
        try:
            target(good)
        except ZeroDivisionError:
            pass
        after = kapi.recorder_counts()
        diff = {k: after[k] - before[k] for k in after if after[k] != before[k]}
        if diff:
            claims.append(Fail(f'events-after-failing-call[{label}]', f'{op}: after a call that raised ({label}) the unchanged pattern was generated again: {diff}',
                               fkey=f'failing-history|{op}|events-after-{label}'))
    # operators used inside the composite: calling them directly now must not generate twice either
    if null_keys:
        n = MultiVector.fromkeysvalues(alg, null_keys, [V.var(f'm{i}') for i in range(len(null_keys))])
        for _ in range(2):
            try:
                n * n; n.conjugate(); ~(n * n); n.sp(n); n.involute()
                target(n)
            except (ZeroDivisionError, ValueError, NameError):
                pass
    claims += _twice_claims(alg, op)
    claims.append(Eq('history-completed', 1, 1))
    return claims


def _run_key_spellings(desc, V):
    """the same key pattern repeated in exactly the same SPELLING (blade names or a range in direct indexing of an operator,
    a range / numpy integers as the key sequence of an operand): every repetition after the first reuses the cached function.
    (Whether two spellings of one pattern share an entry is not demanded.)"""
    from kingdon.multivector import MultiVector
    kapi.install_recorder()
    kapi.reset_generation_counts()
    alg = make_alg(desc['cfg'])
    d = alg.d
    names = list(alg.canon2bin)
    vec = [n for n in names if len(n) == 2]
    biv = [n for n in names if len(n) == 3]
    claims = [Note('nontrivial', ''), Eq('history-completed', 1, 1)]

    def repeat(label, call, n=3):
        try:
            first = call()
        except Exception as e:  # noqa
            return          # a spelling kingdon does not accept: nothing is cached, nothing is demanded
        for i in range(n):
            before = kapi.recorder_counts()
            again = call()
            after = kapi.recorder_counts()
            diff = {k: after[k] - before[k] for k in after if after[k] != before[k]}
            if diff:
                claims.append(Fail(f'key-spellings[{label}]', f'{label}: repetition {i + 2} of the same spelling generated again: {diff}', fkey='key-spellings|events'))
                return
            if isinstance(first, tuple) and len(first) == 2 and callable(first[1]) and again[1] is not first[1]:
                claims.append(Fail(f'key-spellings[{label}]:function', f'{label}: repeated lookups returned different function objects', fkey='key-spellings|function-identity'))
                return

    if len(vec) >= 2 and biv:
        repeat('gp[names]', lambda: alg.gp[(vec[0], vec[1]), (biv[0],)])
        repeat('sw[names]', lambda: alg.sw[(biv[0],), tuple(vec)])
        repeat('reverse[names]', lambda: alg.reverse[(biv[0], vec[0])])
        repeat('op[names-noncanonical-order]', lambda: alg.op[(vec[1], vec[0]), (vec[0],)])
    n = min(4, 2 ** d)
    repeat('gp[range]', lambda: alg.gp[range(n), range(n)])
    repeat('neg[range]', lambda: alg.neg[range(n)])
    xs = [MultiVector.fromkeysvalues(alg, range(n), [V.var(f'x{j}_{i}') for i in range(n)]) for j in range(3)]
    it = iter(xs + xs)
    repeat('operand-keys-range:gp', lambda: (lambda a: a * a)(next(it)), n=2)
    it2 = iter(xs + xs)
    repeat('operand-keys-range:reverse', lambda: ~next(it2), n=2)
    ys = [MultiVector.fromkeysvalues(alg, tuple(np.int64(k) for k in range(n)), [V.var(f'y{j}_{i}') for i in range(n)]) for j in range(3)]
    it3 = iter(ys + ys)
    repeat('operand-keys-numpy-int:gp', lambda: (lambda a: a * a)(next(it3)), n=2)
    return claims


def _run_long(desc, V):
    from kingdon.multivector import MultiVector
    kapi.install_recorder()
    alg = make_alg(desc['cfg'])
    op = desc['op']
    rng = random.Random(desc['hseed'])
    d = alg.d
    binary = op in BIN or op == 'registered'
    if op == 'registered':
        ns = {}
        exec('def reg_long(x, y):\n    return x * y\n', ns)
        target = alg.register(ns['reg_long'])

    def call(tag, ka, kb):
        a = MultiVector.fromkeysvalues(alg, tuple(ka), [V.var(f'{tag}a{i}') for i in range(len(ka))])
        if not binary:
            return ops.call_unary(op, a, 'method')
        b = MultiVector.fromkeysvalues(alg, tuple(kb), [V.var(f'{tag}b{i}') for i in range(len(kb))])
        return target(a, b) if op == 'registered' else ops.call_binary(op, a, b, 'method')

    P = (1, 2, 4)
    call('first', P, P)
    seen = {(P, P)}
    N = 2 ** d
    tries = 0
    while len(seen) < desc['n'] + 1 and tries < 20 * desc['n']:
        tries += 1
        ka = tuple(rng.sample(range(N), rng.randint(1, 4)))
        kb = tuple(rng.sample(range(N), rng.randint(1, 3))) if binary else ka
        if (ka, kb) in seen:
            continue
        seen.add((ka, kb))
        call(f'o{len(seen)}', ka, kb)
    before = kapi.recorder_counts()
    call('again', P, P)
    after = kapi.recorder_counts()
    diff = {k: after[k] - before[k] for k in after if after[k] != before[k]}
    claims = [Note('nontrivial', ''), Eq('history-completed', 1, 1)]
    if diff:
        claims.append(Fail('events-after-long-history', f'{op}: the first pattern was generated again after {len(seen) - 1} other patterns: {diff}', fkey=f'long-history|{op}|events'))
    return claims


def _special_scalars(V, tag):
    import sympy
    return [('sv', V.var(f'{tag}_s')), ('int0', 0), ('int1', 1), ('int-1', -1), ('True', True), ('False', False), ('float0', 0.0), ('float-0', -0.0),
            ('float', 2.5), ('Fraction0', Fraction(0)), ('Fraction', Fraction(3, 2)), ('np.float64(0)', np.float64(0)), ('np.int64(0)', np.int64(0)),
            ('np.int64', np.int64(3)), ('sympy0', sympy.Integer(0)), ('sympy-symbol', sympy.Symbol('s')), ('int-big', 10 ** 20), ('sv2', V.var(f'{tag}_t'))]


def _run_scalar(desc, V):
    from kingdon.multivector import MultiVector
    kapi.install_recorder()
    kapi.reset_generation_counts()
    alg = make_alg(desc['cfg'])
    op = desc['op']
    opdict = getattr(alg, op)
    ka = tuple(desc['ka'])
    claims = [Note('nontrivial', '')]

    def call(side, s, tag):
        # solver-term coefficients with a solver-term / exact number; plain ints with the numpy / sympy numbers
        # (a proxy cannot be mixed with those types; the events in question do not depend on the coefficients)
        if isinstance(s, (sym._SVOps, int, Fraction)) and not isinstance(s, np.integer):
            x = MultiVector.fromkeysvalues(alg, ka, [V.var(f'{tag}x{i}') for i in range(len(ka))])
        else:
            x = MultiVector.fromkeysvalues(alg, ka, [2 + i for i in range(len(ka))])
        return opdict(x, s) if side == 'right' else opdict(s, x)

    for side in ('right', 'left'):
        try:
            call(side, 5, f'first{side}')                  # first call: events allowed
        except ZeroDivisionError:
            continue
        n_entries = len(opdict)
        for j, (name, sval) in enumerate(_special_scalars(V, side)):
            before = kapi.recorder_counts()
            try:
                call(side, sval, f'{side}{j}')
            except (ZeroDivisionError, FloatingPointError):
                pass
            except (TypeError, ValueError):
                # e.g. numpy refuses integer ** -1 in a generated division: not an event question
                if 'sympy' in name or 'np.' in name:
                    pass
                else:
                    raise
            after = kapi.recorder_counts()
            diff = {k: after[k] - before[k] for k in after if after[k] != before[k]}
            if diff:
                claims.append(Fail(f'events-on-repeat[{side}:{name}]', f'{op}: multivector keys {ka} with the plain number {name} on the {side}: generated again {diff}',
                                   fkey=f'scalar-operand|{op}|events'))
            if len(opdict) != n_entries:
                claims.append(Fail(f'cache-grew[{side}:{name}]', f'len(alg.{op}) went from {n_entries} to {len(opdict)} for the plain number {name} on the {side}',
                                   fkey=f'scalar-operand|{op}|cache-size'))
                n_entries = len(opdict)
    claims += _twice_claims(alg, op)
    claims.append(Eq('history-completed', 1, 1))
    return claims


def _values(kind, V, tag, n, rng):
    if kind == 'zeros':
        return [0 for _ in range(n)]
    if kind == 'special':
        return [rng.choice([0, 1, -1, True, False, 0.0, Fraction(0), np.float64(0.0), np.int64(0)]) for _ in range(n)]
    if kind == 'sv':
        return [V.var(f'{tag}_{i}') for i in range(n)]
    if kind == 'int':
        return [rng.randint(1, 5) for _ in range(n)]
    if kind == 'float':
        return [rng.randint(1, 9) / 2 + 0.25 for _ in range(n)]
    if kind == 'fraction':
        return [Fraction(rng.randint(1, 9), rng.randint(2, 5)) for _ in range(n)]
    if kind == 'ndarray':
        return [np.array([rng.randint(1, 5) + 0.5, rng.randint(1, 5) + 0.25]) for _ in range(n)]
    if kind == 'sympy':
        import sympy
        return [sympy.Symbol(f'{tag}{i}') for i in range(n)]
    raise ValueError(kind)


def run_case(desc, V):
    if desc['kind'] == 'key-spellings':
        return _run_key_spellings(desc, V)
    if desc['kind'] == 'long-history':
        return _run_long(desc, V)
    if desc['kind'] == 'failing-history':
        return _run_failing(desc, V)
    if desc['kind'] == 'nary-history':
        return _run_nary(desc, V)
    if desc['kind'] == 'scalar-operand':
        return _run_scalar(desc, V)
    from kingdon.multivector import MultiVector
    kapi.install_recorder()
    kapi.reset_generation_counts()
    alg = make_alg(desc['cfg'])          # own algebra: the history of this case only
    op = desc['op']
    rng = random.Random(desc['hseed'])
    binary = op in BIN or op == 'registered'
    if op == 'registered':
        ns = {}
        exec('def reg_c10(x, y):\n    return (x * y) + (x ^ y)\n', ns)
        target = alg.register(ns['reg_c10'])
        opdict = target
    else:
        opdict = getattr(alg, op)

    def call(kind, tag, ka, kb):
        a = MultiVector.fromkeysvalues(alg, tuple(ka), _values(kind, V, tag + 'a', len(ka), rng))
        if op == 'sqrt' and kind == 'sv' and V.symbolic:
            sym.cur().assume(a.values()[0].t > 0)
        if binary:
            b = MultiVector.fromkeysvalues(alg, tuple(kb), _values(kind, V, tag + 'b', len(kb), rng))
            if op == 'registered':
                return target(a, b)
            return ops.call_binary(op, a, b, 'method')
        return ops.call_unary(op, a, 'method')

    claims = []
    ka, kb, other = desc['ka'], desc['kb'], desc['other']
    spy = _SpyDict(opdict.operator_dict)
    opdict.operator_dict = spy
    try:
        call('sv', 'first', ka, kb)                        # first call: events allowed
    except ZeroDivisionError:
        return [Eq('first-call-raises', 1, 1)]
    n_entries = len(opdict)
    first_keys = list(spy.looked_up)
    sequence = ['sv'] + rng.sample(KINDS[1:], 3 if desc.get('short') else 5) + ['sv']
    for i, kind in enumerate(sequence):
        if i % 2 == 1:
            try:
                call('sv', f'other{i}', other, other)      # interleaved call on another pattern (may generate)
            except ZeroDivisionError:
                pass
            n_entries = len(opdict)
        before = kapi.recorder_counts()
        del spy.looked_up[:]
        try:
            call(kind, f'rep{i}', ka, kb)
        except ZeroDivisionError:
            pass
        except sym.ValueBranch:
            raise
        except (TypeError, ValueError) as e:
            # e.g. sqrt/inv on sympy or array kinds may not be supported by the value type, numpy refuses
            # integer ** -1 in a generated division; not an event question
            if kind in ('sympy', 'ndarray', 'special'):
                continue
            raise
        after = kapi.recorder_counts()
        # the cache key of the repeat equals the key of the first call -- decided by the solver when a key
        # component is a term (a key that embeds coefficient values gives a satisfiable disequality)
        if spy.looked_up and first_keys:
            f0, r0 = _flat(first_keys[-1]), _flat(spy.looked_up[-1])
            if len(f0) != len(r0):
                claims.append(Fail(f'cache-key-shape[{i}:{kind}]', f'cache key {spy.looked_up[-1]!r} vs first {first_keys[-1]!r}', fkey=f'repeat|{op}|cache-key'))
            else:
                for j, (x0, x1) in enumerate(zip(f0, r0)):
                    if isinstance(x0, (int, sym._SVOps)) and isinstance(x1, (int, sym._SVOps)):
                        claims.append(Eq(f'cache-key[{i}:{kind},{j}]', x1, x0, fkey=f'repeat|{op}|cache-key'))
                    elif x0 != x1:
                        claims.append(Fail(f'cache-key[{i}:{kind},{j}]', f'cache key component {x1!r} != {x0!r}', fkey=f'repeat|{op}|cache-key'))
        diff = {k: after[k] - before[k] for k in after if after[k] != before[k]}
        if diff:
            claims.append(Fail(f'events-on-repeat[{i}:{kind}]', f'{op} keys {ka}/{kb if binary else ""}: repeat with {kind} coefficients caused {diff}',
                               fkey=f'repeat|{op}|events'))
        if len(opdict) != n_entries:
            claims.append(Fail(f'cache-grew[{i}:{kind}]', f'len(alg.{op}) went from {n_entries} to {len(opdict)} on a repeat with {kind} coefficients',
                               fkey=f'repeat|{op}|cache-size'))
            n_entries = len(opdict)
    claims += _twice_claims(alg, op)
    claims.append(Eq('history-completed', 1, 1))
    claims.append(Note('nontrivial', 'a history of repeats was executed and observed'))
    return claims


class _SpyDict(dict):
    """records the keys the operator cache is asked for (observation from outside /repo)."""
    def __init__(self, d):
        super().__init__(d)
        self.looked_up = []

    def __contains__(self, k):
        self.looked_up.append(k)
        return super().__contains__(k)


def _flat(k):
    out = []
    stack = [k]
    while stack:
        x = stack.pop()
        if isinstance(x, (tuple, list)):
            stack.extend(reversed(x))
        else:
            out.append(x)
    return out


def _twice_claims(alg, op):
    out = []
    import re
    for (name, keys), n in sorted(kapi.generated_more_than_once(alg).items(), key=str)[:5]:
        name = re.sub(r'^(compile:|codegen:)?r\d+_', r'\1', name)          # registrations carry a process-wide serial number: not part of the finding
        out.append(Fail(f'generated-twice[{name}]', f'code for {name} with key patterns {keys} was generated {n} times on one algebra',
                        fkey=f'history|generated-more-than-once|{"same-operator" if name.replace("compile:", "").endswith(op) or op in name else "nested-operator"}'))
    return out
