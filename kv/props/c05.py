"""
C05 -- duality maps invert each other and define the regressive product.

Engine A (symbolic x, a, b; enumerated configurations and key patterns), one query per case:
 unhodge(hodge x) = hodge(unhodge x) = x in every signature; hodge(x) equals the reference
 Hodge dual defined by  E ^ *E = pss  relative to the algebra's OWN pseudoscalar blade;
 polarity/unpolarity invert each other and polarity(x) = x * pss.inv() (kingdon's own inv and
 gp) when the metric is non-degenerate; a & b = unhodge(hodge a ^ hodge b) with kingdon's own
 operators and = the reference; pss & a = a & pss = a.
Configuration level (concrete): polarity raises ZeroDivisionError iff r > 0; dual()/undual()
 select polarity for r = 0 and Hodge for r = 1 with kind='auto' and obey an explicit kind=.
 For r > 1 the property is silent about 'auto'; nothing is demanded there.
Engine B: key_pss - eI is the bitwise complement for all eI < 2^d (symbolic d-bit index) and
 the rp filter  key_pss == kx + ky - k_out  <=>  kx | ky == key_pss, with keyout = complement
 of kx ^ ky, for all blade pairs of width W.
"""
from __future__ import annotations

import random

import z3

from ..core import Eq, Fail, Note
from .. import pat, ops, bv
from .. import coexist
from ..kapi import get_alg, make_alg, mv, coeffs, mv_eq_claims, eq_claims, kmap, mv_mv_claims, twice_on_wrapper

PROP = 'C05'
LEVEL = 'translation_validation'
ENGINES = ['A', 'B']
FUNCTIONS = ['codegen_hodge', 'codegen_unhodge', 'codegen_polarity', 'codegen_unpolarity', 'codegen_rp (filter_func, keyout_func, sign_func)',
             'MultiVector.dual', 'MultiVector.undual', 'codegen_inv (pss.inv())', 'generated hodge_/unhodge_/polarity_/unpolarity_/rp_ functions']
ASSUMPTIONS = ['coefficients are reals; patterns/configurations enumerated',
               'the Hodge dual is defined relative to the algebra\'s own pseudoscalar blade (custom orientations by definition)']
BOUNDS = {'quick': 'all (p,q,r) d<=4 (d=4: grade unions/single blades/random sparse), 11 signatures of d=5,6 (sparse), custom bases (named + 12 sampled), wrapper algebras with a second pass; Engine B W=10; twin algebras coexisting in one process',
          'thorough': 'all (p,q,r) d<=6 (sparse above 4), 100 sampled custom bases; Engine B W=14'}
OUTSIDE = ['d > 6', "dual(kind='auto') for r > 1 (property silent)", 'floating-point rounding']
OPTS = {'rlimit': 100_000_000, 'canary_every': 15}
SPECIAL_KINDS = ('bv',)


def _cfg_list(tier, rng):
    cfgs = []
    for d in range(0, 5):
        cfgs += [dict(p=p, q=q, r=r) for p, q, r in pat.pqr_all(d)]
    cfgs += [dict(name='2DPGA'), dict(name='3DPGA'), dict(signature=[1, 0, -1]), dict(signature=[-1, 1, 0, 1], start_index=1)]
    if tier == 'thorough':
        for d in (5, 6):
            cfgs += [dict(p=p, q=q, r=r) for p, q, r in pat.pqr_all(d)]
        cfgs += [dict(name='STAP')]
    else:
        cfgs += [dict(p=4, q=1), dict(p=3, q=1, r=1), dict(name='STAP'), dict(p=5, r=1)]
        # every dimension of the property's range in the quick tier too (sign rules that hold for small d only)
        cfgs += [dict(p=5), dict(p=2, q=3), dict(p=6), dict(p=3, q=3), dict(p=1, q=5), dict(p=4, q=1, r=1), dict(q=6)]
    for i in range(12 if tier == 'quick' else 100):
        d = rng.choice((2, 3, 3, 4))
        pqr = rng.choice(pat.pqr_all(d))
        cfgs.append(dict(p=pqr[0], q=pqr[1], r=pqr[2], basis=pat.random_basis(pqr, rng)))
    return cfgs


def _d_of(cfg):
    if 'name' in cfg:
        return {'2DPGA': 3, '3DPGA': 4, 'STAP': 5}[cfg['name']]
    if 'signature' in cfg:
        return len(cfg['signature'])
    return cfg.get('p', 0) + cfg.get('q', 0) + cfg.get('r', 0)


def cases(tier, seed):
    rng = random.Random(seed * 7919 + 5)
    out = []
    wrappers = [dict(p=2, wrapper='identity'), dict(p=3, wrapper='wraps'), dict(p=3, r=1, wrapper='identity'), dict(p=1, q=2, wrapper='identity'),
                dict(p=4, wrapper='wraps'), dict(p=2, q=2, wrapper='identity')]
    fuzz = [pat.random_cfg(rng, d=rng.choice((2, 3, 3, 4)))[0] for _ in range(25 if tier == 'quick' else 250)]
    for cfg in _cfg_list(tier, rng) + wrappers + fuzz:
        d = _d_of(cfg)
        out.append(dict(kind='config', cfg=cfg))
        if d <= 2:
            pats = pat.EXH(d)
            if d == 2:
                pats = rng.sample(pats, 30) + pat.FULL(2)
        elif d == 3:
            pats = rng.sample(pat.SUB(3), 25 if tier == 'quick' else 120) + pat.FULL(3) + pat.RND(3, 8, rng)
        else:
            n = (10 if d <= 4 else 4) if tier == 'quick' else 40
            pats = pat.GRD(d, max_grades=2)[: 3 * n] + pat.RND(d, n, rng, max_len=8) + ([pat.FULL(d)[0]] if d == 4 else [])
        for ka in pats:
            out.append(dict(kind='unary', cfg=cfg, ka=list(ka)))
        npair = (25 if d <= 3 else 10) if tier == 'quick' else (150 if d <= 3 else 40)
        for _ in range(npair):
            ka, kb = rng.choice(pats), rng.choice(pats)
            if d >= 4:
                ka, kb = ka[:8], kb[:8]
            out.append(dict(kind='rp', cfg=cfg, ka=list(ka), kb=list(kb)))
        out.append(dict(kind='rp-identity', cfg=cfg, ka=list(pats[-1][:10])))
        if d <= 4 and not cfg.get('wrapper'):
            for _ in range(2 if tier == 'quick' else 6):
                out.append(dict(kind='registered', cfg=cfg, ka=list(rng.choice(pats)[:6]), kb=list(rng.choice(pats)[:6])))
    # algebras coexisting in one process (shared blade names, different numbering / metric / options)
    out += coexist.cases(tier, seed, 305, n_quick=20)
    return out


def run_case(desc, V):
    if desc['kind'] == 'coexist':
        return coexist.run(desc, V, binary=('rp',), unary=('hodge', 'unhodge', 'polarity', 'unpolarity'))
    kind = desc['kind']
    if kind == 'config':
        return _run_config(desc, V)
    return twice_on_wrapper(desc['cfg'], lambda alg: _body(desc, V, alg))


def _body(desc, V, alg):
    kind = desc['kind']
    km = kmap(alg)
    a = mv(alg, V, 'a', desc['ka'])
    A = coeffs(a)
    claims = []
    nondeg = alg.r == 0
    if kind == 'unary':
        h = a.hodge()
        claims += mv_eq_claims('hodge=ref', h, ops.ref_unary(km, 'hodge', A))
        uh = a.unhodge()
        claims += mv_eq_claims('unhodge=ref', uh, ops.ref_unary(km, 'unhodge', A))
        claims += mv_eq_claims('unhodge(hodge)', h.unhodge(), A)
        claims += mv_eq_claims('hodge(unhodge)', uh.hodge(), A)
        # E ^ hodge(E) = pss for every stored blade (coefficient-wise: a_E E ^ hodge(a_E E) = a_E^2 pss)
        pss_key = 2 ** alg.d - 1
        for k, v in A.items():
            E = alg.multivector(keys=(k,), values=[1])
            claims += mv_eq_claims(f'E^hodge(E)=pss[{k}]', E ^ E.hodge(), {pss_key: 1})
        if nondeg:
            p_ = a.polarity()
            up = a.unpolarity()
            claims += mv_eq_claims('unpolarity(polarity)', p_.unpolarity(), A)
            claims += mv_eq_claims('polarity(unpolarity)', up.polarity(), A)
            claims += mv_eq_claims('polarity=x*pss.inv()', p_, coeffs(a * alg.pss.inv()))
            claims += mv_eq_claims('polarity=ref', p_, ops.ref_unary(km, 'polarity', A))
            claims += mv_eq_claims('unpolarity=x*pss', up, coeffs(a * alg.pss))
            claims += mv_eq_claims('dual(auto)=polarity', a.dual(), coeffs(p_))
            claims += mv_eq_claims('undual(auto)=unpolarity', a.undual(), coeffs(up))
        elif alg.r == 1:
            claims += mv_eq_claims('dual(auto)=hodge', a.dual(), coeffs(h))
            claims += mv_eq_claims('undual(auto)=unhodge', a.undual(), coeffs(uh))
        claims += mv_eq_claims("dual(kind=hodge)", a.dual(kind='hodge'), coeffs(h))
        claims += mv_eq_claims("undual(kind=hodge)", a.undual(kind='hodge'), coeffs(uh))
        if nondeg:
            claims += mv_eq_claims("dual(kind=polarity)", a.dual(kind='polarity'), coeffs(a.polarity()))
            claims += mv_eq_claims("undual(kind=polarity)", a.undual(kind='polarity'), coeffs(a.unpolarity()))
        return claims
    if kind == 'rp':
        b = mv(alg, V, 'b', desc['kb'])
        B = coeffs(b)
        r = a & b
        claims += mv_eq_claims('rp=unhodge(hodge^hodge)', r, coeffs((a.hodge() ^ b.hodge()).unhodge()))
        claims += mv_eq_claims('rp=ref', r, ops.ref_binary(km, 'rp', A, B))
        claims += mv_eq_claims('rp-method', a.rp(b), coeffs(r))
        return claims
    if kind == 'registered':
        # the same relations with the left-hand sides compiled by alg.register (TapeRecorder route)
        b = mv(alg, V, 'b', desc['kb'])
        ns = {}
        exec('def reg_hh(x):\n    return x.hodge().unhodge()\n'
             'def reg_uh(x):\n    return x.unhodge().hodge()\n'
             'def reg_h(x):\n    return x.hodge()\n'
             'def reg_u(x):\n    return x.unhodge()\n'
             'def reg_rp(x, y):\n    return (x.hodge() ^ y.hodge()).unhodge()\n'
             'def reg_du(x):\n    return x.dual().undual()\n', ns)
        claims += mv_eq_claims('reg:unhodge(hodge)', alg.register(ns['reg_hh'])(a), A)
        claims += mv_eq_claims('reg:hodge(unhodge)', alg.register(ns['reg_uh'])(a), A)
        claims += mv_eq_claims('reg:hodge', alg.register(ns['reg_h'])(a), coeffs(a.hodge()))
        claims += mv_eq_claims('reg:unhodge', alg.register(ns['reg_u'])(a), coeffs(a.unhodge()))
        claims += mv_eq_claims('reg:rp', alg.register(ns['reg_rp'])(a, b), coeffs(a & b))
        if alg.r <= 1:
            claims += mv_eq_claims('reg:undual(dual)', alg.register(ns['reg_du'])(a), A)
        return claims
    if kind == 'rp-identity':
        pss = alg.pss
        claims += mv_eq_claims('pss&a', pss & a, A)
        claims += mv_eq_claims('a&pss', a & pss, A)
        return claims
    raise ValueError(kind)


def _run_config(desc, V):
    """concrete, configuration-level clauses."""
    alg = make_alg(desc['cfg'])
    claims = []
    x = alg.multivector(keys=(0, 2 ** alg.d - 1) if alg.d else (0,), values=[2, 3] if alg.d else [2])
    for name in ('polarity', 'unpolarity'):
        try:
            getattr(x, name)()
            raised = None
        except ZeroDivisionError:
            raised = 'ZeroDivisionError'
        except Exception as e:  # noqa
            raised = type(e).__name__
        if name == 'polarity':
            want = 'ZeroDivisionError' if alg.r > 0 else None
            if raised != want:
                claims.append(Fail(f'polarity-raises', f'r={alg.r}: polarity() raised {raised}, expected {want}',
                                   fkey=f'config|polarity-raises|r>0={alg.r > 0}|got={raised}'))
    for call, sel in (('dual', 'polarity'), ('undual', 'unpolarity')):
        if alg.r == 0:
            pass  # value-level comparison is done in the 'unary' cases
        for kind_, exp in (('hodge', None),):
            try:
                getattr(x, call)(kind=kind_)
                raised = None
            except Exception as e:  # noqa
                raised = type(e).__name__
            if raised != exp:
                claims.append(Fail(f'{call}(kind={kind_})', f'raised {raised}, expected {exp}'))
    claims.append(Eq('config-reached', 1, 1))
    return claims


# --------------------------------------------------------------------------- Engine B

def _lemmas(W):
    import kingdon.codegen as cg
    from kingdon import Algebra
    out = []
    d = min(W, 6)
    # the rp closures close over the algebra's key_pss: use a real d-dimensional algebra and width d
    for d in sorted({2, 3, min(W, 6)}):
        alg = Algebra(d)
        WB = d + 3
        rec = bv.capture_product_closures(getattr(cg, 'codegen_rp', None), alg) if hasattr(cg, 'codegen_rp') else None
        if not rec or not rec.get('filter_func') or not rec.get('keyout_func'):
            r = bv._new_result(dict(kind='bv-lemma', lemma='rp-filter', W=d))
            r['notes'].append('observation point not available; lemma skipped (Engine A covers rp)')
            out.append(r)
            continue
        kx, cx = bv.blade_var('kx', d, WB)
        ky, cy = bv.blade_var('ky', d, WB)
        full = (1 << d) - 1
        ko = rec['keyout_func'](kx, ky)
        f = rec['filter_func'](kx, ky, ko)
        fb = f.b if isinstance(f, bv.SBV) else z3.BoolVal(bool(f))
        spec = (kx.t | ky.t) == full
        keyspec = ko.t == (z3.BitVecVal(full, WB) ^ (kx.t ^ ky.t))
        neg = z3.And(cx, cy, z3.Or(fb != spec, z3.Not(keyspec)))

        def replay(vals, rec=rec, full=full):
            x, y = vals['kx'], vals['ky']
            k = rec['keyout_func'](x, y)
            got = bool(rec['filter_func'](x, y, k))
            want = (x | y) == full
            if got != want or k != full ^ x ^ y:
                return f'rp term e_{x} & e_{y}: key {k} (complement of xor is {full ^ x ^ y}), filter keeps={got}, definition (join covers pss) keeps={want}'
            return None
        out.append(bv.lemma(PROP, f'rp-filter<=>union-is-pss(d={d})', neg, {'kx': WB, 'ky': WB}, replay, extra=dict(W=d)))
    return out


def extra(tier, seed, jobs):
    return _lemmas(10 if tier == 'quick' else 14)


def replay_special(viol):
    for r in _lemmas(10):
        for v in r['violations']:
            if v['label'] == viol['label']:
                print(' ', v['detail'])
                return True
    return False
