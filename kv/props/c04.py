"""
C04 -- sum, difference, negation, involutions and grade selection act blade-wise.

Engine A: a+b, a-b, -a, ~a, involute, conjugate and grade(...) are run through the public
surface on solver-term coefficients for enumerated ordered key patterns (disjoint, overlapping,
empty, permuted); one z3 query per case decides blade by blade, for all coefficient values:
 a+b / a-b / -a against the reference (a-b on blades only b stores = -b_K);
 the three involution signs (-1)^(k(k-1)/2), (-1)^k, (-1)^(k(k+1)/2); each involution twice = identity;
 ~(ab) = ~b ~a, conj(ab) = conj(b) conj(a), inv(ab) = inv(a) inv(b) with kingdon's gp;
 grade(gs) returns exactly the stored coefficients of the requested grades for ALL 2^(d+1)
 grade selections, in both call forms grade(1,2) and grade((1,2)).
Engine B (fork mode): the real codegen_involutions is executed on a symbolic blade index (its
``bin`` is shimmed to a bit-vector popcount); every feasible path of the ``% 4 in invert_grades``
test is explored and the sign proved equal to the closed form for all k < 2^W.
"""
from __future__ import annotations

import itertools
import random

import z3

from ..core import Eq, Fail, Note, _new_result, _violation
from .. import pat, ops, bv, sym
from .. import coexist
from ..kapi import get_alg, mv, coeffs, mv_eq_claims, eq_claims, kmap
from ..ref import popcount

PROP = 'C04'
LEVEL = 'translation_validation'
ENGINES = ['A', 'B', 'F']
FUNCTIONS = ['codegen_add', 'codegen_sub', 'codegen_neg', 'codegen_involutions', 'codegen_reverse/involute/conjugate',
             'MultiVector.grade', 'MultiVector.__getattr__', 'OperatorDict._call_binary', 'UnaryOperatorDict.__call__',
             'do_codegen', 'lambdify/func_builder', 'generated add_/sub_/neg_/reverse_/involute_/conjugate_ functions']
ASSUMPTIONS = ['coefficients are reals; patterns/configurations enumerated, coefficient values symbolic',
               'Engine B: blade index symbolic below 2^W; `bin` inside kingdon.codegen replaced by a popcount shim for that harness']
BOUNDS = {'quick': 'd<=2 all ordered pattern pairs, d=3 sampled subsets/grade unions, d=4,5 random sparse, d=7,8 random sparse; all grade selections; Engine B W=12; forms kind (numbers on either side, register in both modes, operands built through every key container, grade selections in any order); twin algebras; grade selections with repeated grades, also longer than d + 1 entries',
          'thorough': 'larger samples, d=3 all subsets for unary parts, Engine B W=16'}
OUTSIDE = ['d > 8', 'floating-point rounding']
OPTS = {'rlimit': 80_000_000, 'canary_every': 20}
SPECIAL_KINDS = ('bv',)


def cases(tier, seed):
    rng = random.Random(seed * 7919 + 4)
    out = []

    def add(kind, cfg, ka, kb=()):
        out.append(dict(kind=kind, cfg=cfg, ka=list(ka), kb=list(kb)))

    for d in (0, 1, 2):
        E = pat.EXH(d)
        cfgs = [dict(p=d), dict(p=d // 2, q=d - d // 2)] if d else [dict()]
        if d == 2:
            cfgs.append(dict(p=1, r=1))
        for cfg in cfgs:
            pairs = [(x, y) for x in E for y in E]
            if d == 2 and tier == 'quick':
                pairs = rng.sample(pairs, 1200)
            for x, y in pairs:
                add('addsub', cfg, x, y)
            for x in E:
                add('unary', cfg, x)
        for cfg in cfgs[:2]:
            for x, y in ([(x, y) for x in E for y in E] if d < 2 else rng.sample([(x, y) for x in E for y in E], 300)):
                add('morphism', cfg, x, y)
    S3 = pat.SUB(3)
    for cfg in (dict(p=3), dict(p=2, r=1), dict(q=3), dict(name='2DPGA'), dict(p=1, q=1, r=1)):
        n = 200 if tier == 'quick' else 12000
        for _ in range(n):
            x, y = list(rng.choice(S3)), list(rng.choice(S3))
            if rng.random() < 0.5:
                rng.shuffle(x); rng.shuffle(y)
            add('addsub', cfg, x, y)
        for x in (S3 if tier == 'thorough' else rng.sample(S3, 60)):
            add('unary', cfg, x)
        for _ in range(40 if tier == 'quick' else 400):
            add('morphism', cfg, rng.choice(S3), rng.choice(S3))
    for d, cfgs in ((4, [dict(p=3, r=1), dict(p=2, q=2), dict(name='3DPGA')]), (5, [dict(p=4, q=1), dict(name='STAP')]),
                    (7, [dict(p=6, r=1), dict(p=4, q=1, r=2)]), (8, [dict(p=4, q=4)])):
        for cfg in cfgs:
            order = list(range(2 ** d)) if d > 6 else None
            R = pat.RND(d, (30 if tier == 'quick' else 300) if d < 7 else (8 if tier == 'quick' else 40), rng, max_len=9, order=order)
            for i in range(len(R) // 2):
                add('addsub', cfg, R[2 * i], R[2 * i + 1])
                add('unary', cfg, R[2 * i])
                if d <= 5 and i % 3 == 0:
                    add('morphism', cfg, R[2 * i][:5], R[2 * i + 1][:5])
            if d <= 5:
                for p in pat.FULL(d):
                    add('unary', cfg, p)
    # the same operations spelled other ways: a plain number on either side of + and -, and the expressions
    # handed to alg.register (numeric tape and symbolic=True)
    for cfg in (dict(p=2), dict(p=1, q=1), dict(p=2, r=1), dict(p=3), dict(p=3, r=1)):
        dd = sum(cfg.values())
        for _ in range(8 if tier == 'quick' else 60):
            add('forms', cfg, pat.random_pattern(rng, dd, max_len=4), pat.random_pattern(rng, dd, max_len=4))
    # configuration fuzz over all construction axes
    for i in range(150 if tier == 'quick' else 1500):
        cfg, dd = pat.random_cfg(rng)
        cfg.pop('wrapper', None)
        add(rng.choice(['addsub', 'addsub', 'unary', 'morphism']), cfg, pat.random_pattern(rng, dd), pat.random_pattern(rng, dd))
    # algebras coexisting in one process (shared blade names, different numbering / metric / options)
    out += coexist.cases(tier, seed, 304, n_quick=20)
    return out


def run_case(desc, V):
    if desc['kind'] == 'coexist':
        return coexist.run(desc, V, binary=('add', 'sub'), unary=('neg', 'reverse', 'involute', 'conjugate'))
    alg = get_alg(desc['cfg'])
    km = kmap(alg)
    R = km.ref
    a = mv(alg, V, 'a', desc['ka'])
    A = coeffs(a)
    claims = []
    kind = desc['kind']
    if kind == 'addsub':
        b = mv(alg, V, 'b', desc['kb'])
        B = coeffs(b)
        claims += mv_eq_claims('add', a + b, R.add(A, B))
        claims += mv_eq_claims('sub', a - b, R.sub(A, B))
        claims += mv_eq_claims('add-alg', alg.add(b, a), R.add(A, B))
        claims += mv_eq_claims('sub-meth', b.sub(a), R.sub(B, A))
        claims += mv_eq_claims('neg', -a, R.neg(A))
        return claims
    if kind == 'unary':
        for name, call in (('reverse', lambda x: ~x), ('reverse-m', lambda x: x.reverse()),
                           ('involute', lambda x: x.involute()), ('conjugate', lambda x: x.conjugate()),
                           ('neg', lambda x: x.neg())):
            r = call(a)
            base = name.split('-')[0]
            claims += mv_eq_claims(name, r, ops.ref_unary(km, base, A))
            if base != 'neg':
                claims += mv_eq_claims(f'{base}-twice', call(r), A)
        # grade selection: all selections, both call forms
        d = alg.d
        gsel = list(itertools.chain.from_iterable(itertools.combinations(range(d + 1), n) for n in range(d + 2)))
        if len(gsel) > 64:
            rng = random.Random(len(desc['ka']) * 31 + sum(desc['ka']))
            gsel = rng.sample(gsel, 64)
        for i, gs in enumerate(gsel):
            want = {k: v for k, v in A.items() if popcount(k) in gs}
            r = a.grade(*gs) if i % 2 == 0 else a.grade(tuple(gs))
            claims += mv_eq_claims(f'grade[{gs}]', r, want)
            extra_keys = [k for k in r.keys() if popcount(k) not in gs or k not in A]
            if extra_keys:
                claims.append(Fail(f'grade[{gs}]:keys', f'grade{gs} of keys {tuple(a.keys())} stores blades {extra_keys}'))
        return claims
    if kind == 'forms':
        b = mv(alg, V, 'b', desc['kb'])
        B = coeffs(b)
        s_ = V.var('s')
        S = {0: s_}
        progs = {'a + b': R.add(A, B), 'a - b': R.sub(A, B), 'b - a': R.sub(B, A), '-a': R.neg(A), '5 - a': R.sub({0: 5}, A), 'a - 5': R.sub(A, {0: 5}),
                 '5 + a': R.add(A, {0: 5}), 'a + 5': R.add(A, {0: 5}), '-(a - b)': R.sub(B, A), '~a': ops.ref_unary(km, 'reverse', A),
                 'a.involute()': ops.ref_unary(km, 'involute', A), 'a.conjugate()': ops.ref_unary(km, 'conjugate', A),
                 'a.grade(1)': {k: v for k, v in A.items() if popcount(k) == 1}, 'a.grade(0, 2) - b.grade(1)': R.sub({k: v for k, v in A.items() if popcount(k) in (0, 2)}, {k: v for k, v in B.items() if popcount(k) == 1})}
        claims += mv_eq_claims('s - a', s_ - a, R.sub(S, A))
        claims += mv_eq_claims('a - s', a - s_, R.sub(A, S))
        claims += mv_eq_claims('s + a', s_ + a, R.add(S, A))
        claims += mv_eq_claims('a + s', a + s_, R.add(A, S))
        # operands built through the public constructor with the keys in every container kind
        import numpy as _np
        builders = {'list': lambda ks, vs: alg.multivector(keys=list(ks), values=list(vs)),
                    'tuple': lambda ks, vs: alg.multivector(keys=tuple(ks), values=list(vs)),
                    'ndarray': lambda ks, vs: alg.multivector(keys=_np.array(ks, dtype=int), values=list(vs)),
                    'mapping': lambda ks, vs: alg.multivector(dict(zip(ks, vs))),
                    'names': lambda ks, vs: alg.multivector(keys=[alg.bin2canon[k] for k in ks], values=list(vs)),
                    'values-tuple': lambda ks, vs: alg.multivector(keys=tuple(ks), values=tuple(vs))}
        if desc['ka'] and not alg.graded:
            for bname, build in builders.items():
                try:
                    a2 = build(list(a.keys()), list(a.values()))
                    claims += mv_eq_claims(f'built-{bname}:neg', -a2, R.neg(A), fkey=f'forms|constructed|{bname}')
                    claims += mv_eq_claims(f'built-{bname}:add', a2 + b, R.add(A, B), fkey=f'forms|constructed|{bname}')
                    claims += mv_eq_claims(f'built-{bname}:rsub', b - a2, R.sub(B, A), fkey=f'forms|constructed|{bname}')
                    claims += mv_eq_claims(f'built-{bname}:reverse', ~a2, ops.ref_unary(km, 'reverse', A), fkey=f'forms|constructed|{bname}')
                    claims += mv_eq_claims(f'built-{bname}:grade', a2.grade(1), {k: v for k, v in A.items() if popcount(k) == 1}, fkey=f'forms|constructed|{bname}')
                except TypeError as e:
                    claims.append(Fail(f'built-{bname}:raises', f'a multivector constructed with keys given as {bname} cannot be used as an operand: TypeError: {e}',
                                       fkey=f'forms|constructed|{bname}|raises'))
        # grade selections spelled in any order / with repetitions denote the same selection
        # (also with MORE entries than the algebra has grades: the count of the arguments says nothing about the selection)
        for gs in ((2, 1), (1, 0), (1, 1), (2, 0, 1), (0, 0), (1, 1, 1), (0, 1, 0, 1), (1, 1, 2), (1, 2, 2, 1), (0,) * (alg.d + 2), (1, 0) * (alg.d + 1), tuple(range(alg.d + 1)) * 2):
            if max(gs) > alg.d:
                continue
            want = {k: v for k, v in A.items() if popcount(k) in gs}
            for form, call in (('args', lambda: a.grade(*gs)), ('tuple', lambda: a.grade(tuple(gs)))):
                try:
                    claims += mv_eq_claims(f'grade{gs}:{form}', call(), want, fkey='forms|grade-order')
                except KeyError as e:
                    claims.append(Fail(f'grade{gs}:{form}:raises', f'a.grade{gs} raises KeyError {e} (the same grades in ascending order are accepted)', fkey='forms|grade-order|raises'))
        for i, (src, want) in enumerate(progs.items()):
            ns = {}
            exec(f'def c04_form{i}(a, b):\n    return {src}\n', ns)
            f = ns[f'c04_form{i}']
            claims += mv_eq_claims(f'direct:{src}', f(a, b), want, fkey='forms|direct')
            for mode in ('register', 'register-symbolic'):
                g = alg.register(f, symbolic=True) if mode.endswith('symbolic') else alg.register(f)
                try:
                    r = g(a, b)
                except Exception as e:  # noqa
                    claims.append(Fail(f'{mode}:{src}:raises', f'{mode} of `{src}` raised {type(e).__name__}: {e}', fkey=f'forms|{mode}|raises'))
                    continue
                claims += mv_eq_claims(f'{mode}:{src}', r, want, fkey=f'forms|{mode}')
        return claims
    if kind == 'morphism':
        b = mv(alg, V, 'b', desc['kb'])
        ab = a * b
        claims += mv_eq_claims('rev(ab)=rev(b)rev(a)', ~ab, coeffs(~b * ~a))
        claims += mv_eq_claims('conj(ab)=conj(b)conj(a)', ab.conjugate(), coeffs(b.conjugate() * a.conjugate()))
        claims += mv_eq_claims('inv(ab)=inv(a)inv(b)', ab.involute(), coeffs(a.involute() * b.involute()))
        return claims
    raise ValueError(kind)


# --------------------------------------------------------------------------- Engine B

class _FakeX:
    def __init__(self, k, v):
        self._k, self._v = k, v

    def items(self):
        return [(self._k, self._v)]


def _involution_lemmas(W):
    import kingdon.codegen as cg
    WB = W + 3
    out = []
    spec_exp = {'reverse': lambda g: (g * (g - 1)) / 2, 'involute': lambda g: g, 'conjugate': lambda g: (g * (g + 1)) / 2}
    for name in ('reverse', 'involute', 'conjugate'):
        fn = getattr(cg, f'codegen_{name}', None)
        desc = dict(kind='bv-involution', lemma=f'{name}-sign', W=W)
        res = _new_result(desc)
        res['nontrivial'] = True
        if fn is None:
            res['notes'].append('codegen_%s not found; lemma skipped' % name)
            out.append(res)
            continue
        had_bin = 'bin' in cg.__dict__
        old_bin = cg.__dict__.get('bin')
        cg.bin = bv.bin_shim
        try:
            k, ck = bv.blade_var('k', W, WB)
            v = sym.var('v')

            def run():
                return fn(_FakeX(k, v))

            npaths = 0
            for ctx, r in sym.explore(run, max_paths=64):
                npaths += 1
                if not isinstance(r, dict) or len(r) != 1:
                    res['status'] = 'error'
                    res['notes'].append(f'unexpected return shape {type(r).__name__}')
                    break
                (kout, vout), = r.items()
                g = bv.popcount_term(k.t, WB)
                e = {'reverse': g * (g - 1), 'involute': 2 * g, 'conjugate': g * (g + 1)}[name]   # 2 * exponent
                negsign = z3.Extract(1, 1, e) == 1     # exponent odd  <=>  bit 1 of 2*exponent
                want = z3.If(negsign, -v.t, v.t)
                s = z3.Solver(); s.set('rlimit', 200_000_000)
                s.add(ck, *ctx.path)
                kt = kout.t if isinstance(kout, bv.SI) else z3.BitVecVal(int(kout), WB)
                s.add(z3.Or(sym.term(vout) != want, kt != k.t))
                s.add(v.t != 0)
                rr = s.check()
                res['queries'] += 1
                res[str(rr)] = res.get(str(rr), 0) + 1
                if rr == z3.unknown:
                    res['status'] = 'inconclusive'
                elif rr == z3.sat:
                    kv = s.model().eval(k.t, model_completion=True).as_long()
                    cg.bin = old_bin if had_bin else bin
                    got = fn(_FakeX(kv, 1))
                    gg = bin(kv).count('1')
                    ex = {'reverse': gg * (gg - 1) // 2, 'involute': gg, 'conjugate': gg * (gg + 1) // 2}[name]
                    exp = {kv: -1 if ex % 2 else 1}
                    if got != exp:
                        res['status'] = 'violation'
                        res['violations'].append(_violation(PROP, desc, f'{name}-sign', f'bv-involution|{name}-sign',
                                                            f'{name} of blade index {kv} (grade {gg}): got {got}, expected {exp}',
                                                            {'k': kv}, kind='bv'))
                    else:
                        res['status'] = 'error'
                        res['notes'].append(f'sat model k={kv} did not reproduce')
                    break
            res['paths'] = npaths
            res['n_eq'] = res['n_eq_nontrivial'] = npaths
        except (sym.PathBudget, sym.ValueBranch) as e:
            res['status'] = 'inconclusive'
            res['notes'].append(f'{type(e).__name__}: {e}')
        finally:
            if had_bin:
                cg.bin = old_bin
            elif 'bin' in cg.__dict__:
                del cg.bin
        out.append(res)
    return out


def extra(tier, seed, jobs):
    return _involution_lemmas(12 if tier == 'quick' else 16)


def replay_special(viol):
    for r in _involution_lemmas(viol['desc'].get('W', 12)):
        for v in r['violations']:
            if v['label'] == viol['label']:
                print(' ', v['detail'])
                return True
    return False
