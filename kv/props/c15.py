"""
C15 -- multivector construction and coefficient access round-trip.

Coefficients are distinct solver-term labels, so 'dropped', 'negated' or 'moved to another blade'
is visible for every value at once.  For each enumerated construction form (keys+values with
int / name / mixed keys, a mapping, keyword blades in EVERY spelling incl. mixtures of canonical
and permuted ones, grade-restricted value lists and the convenience constructors, dense values,
fromkeysvalues, symbolic by name) ONE query per case proves that reading back through
getattr for every spelling of every blade (value x permutation parity computed by the reference;
0 when absent), items(), containment, keys/values, grade(), asfullmv() in both layouts, map()
(1- and 2-argument) reflects exactly the supplied labels; filter() is explored in fork mode
(kept iff non-zero).  Error clauses (concrete): length mismatch, keys outside the declared
grades, invalid grades, incomplete grades in graded mode must raise.
"""
from __future__ import annotations

import itertools
import random

from ..core import Eq, Fail, Note
from .. import pat, sym
from ..kapi import get_alg, make_alg, coeffs, mv_eq_claims, eq_claims, kmap
from ..ref import popcount

PROP = 'C15'
LEVEL = 'other'
ENGINES = ['A', 'F']
FUNCTIONS = ['MultiVector.__new__ (all input normalisation branches)', 'MultiVector.fromkeysvalues', 'MultiVector.__getattr__', 'Algebra._blade2canon',
             'MultiVector.__contains__/items/keys/values', 'MultiVector.grade', 'MultiVector.asfullmv', 'MultiVector.map', 'MultiVector.filter',
             'Algebra.multivector/purevector/evenmv/oddmv/scalar/vector/.../pseudo*']
ASSUMPTIONS = ['labels are reals; construction forms, spellings and algebras are enumerated', 'two keywords naming the same blade are not generated (ambiguous input)']
BOUNDS = {'quick': 'default bases d<=4 and custom bases (named + sampled), graded on/off; all key subsets d<=2, sampled above; every permutation spelling up to 4 generators; silent-drop clauses (keywords outside the algebra / next to values / two spellings / no blade names, duplicates, generator keys), absent blades under start indices 3..14, containment by any spelling, graded permuted keys and mappings',
          'thorough': 'more sampled subsets and custom bases, d=5'}
OUTSIDE = ['generator names beyond single hex digits', 'array-valued coefficients (C16)']
LABEL_MOVEMENT = True
RULE = ('cases are enumerated/seeded deterministically; a case is non-trivial when it moved at least one symbolic label through the real code '
        '(data-movement identities are mostly decided by syntactic identity of the solver terms, the rest by a z3 query)')
OPTS = {'rlimit': 100_000_000, 'canary_every': 10}
EXPLANATION = __doc__

FORMS = ['keys-int', 'keys-name', 'keys-mixed', 'mapping-int', 'mapping-name', 'kwargs', 'kwargs-permuted', 'fromkeysvalues', 'dense', 'grades',
         'keys-name-permuted', 'mapping-name-permuted']


def cases(tier, seed):
    rng = random.Random(seed * 7919 + 15)
    out = []
    cfgs = [dict(p=1), dict(p=2), dict(p=1, q=1), dict(p=3), dict(p=2, r=1), dict(p=3, r=1), dict(p=4), dict(name='2DPGA'), dict(name='3DPGA'),
            dict(p=2, start_index=0), dict(p=3, start_index=4), dict(p=2, start_index=3), dict(p=1, start_index=2), dict(p=3, start_index=6), dict(p=1, q=1, r=1, start_index=7), dict(p=3, start_index=12), dict(p=4, start_index=11)]
    for _ in range(6 if tier == 'quick' else 200):
        d = rng.choice((2, 3, 3, 4))
        pqr = rng.choice(pat.pqr_all(d))
        cfgs.append(dict(p=pqr[0], q=pqr[1], r=pqr[2], basis=pat.random_basis(pqr, rng)))
    if tier == 'thorough':
        cfgs += [dict(p=4, q=1), dict(name='STAP')]
    for cfg in cfgs:
        d = {'2DPGA': 3, '3DPGA': 4, 'STAP': 5}.get(cfg.get('name')) or sum(v for k, v in cfg.items() if k in 'pqr')
        subsets = pat.SUB(d, order=list(range(2 ** d))) if d <= 2 else [tuple(p) for p in pat.RND(d, 14 if tier == 'quick' else 120, rng, max_len=6, min_len=1, order=list(range(2 ** d)))]
        subsets = [s for s in subsets if s]
        for form in FORMS:
            if form == 'dense':
                out.append(dict(kind='construct', cfg=cfg, form=form, keys=list(range(2 ** d)), sseed=rng.randrange(10 ** 6)))
                continue
            if form == 'grades':
                for gs in [g for n in (1, 2) for g in itertools.combinations(range(d + 1), n)][:10]:
                    out.append(dict(kind='construct', cfg=cfg, form=form, grades=list(gs), keys=[], sseed=rng.randrange(10 ** 6)))
                continue
            for ks in (subsets if d <= 2 else rng.sample(subsets, min(len(subsets), 5 if tier == 'quick' else 25))):
                ks = list(ks)
                rng.shuffle(ks)
                out.append(dict(kind='construct', cfg=cfg, form=form, keys=ks, sseed=rng.randrange(10 ** 6)))
        out.append(dict(kind='convenience', cfg=cfg))
        out.append(dict(kind='errors', cfg=cfg))
        out.append(dict(kind='byname', cfg=cfg, keys=list(rng.choice(subsets))))
        for ks in rng.sample(subsets, min(3, len(subsets))):
            out.append(dict(kind='filter', cfg=cfg, keys=list(ks)[:3], fork=True))
    for cfg in (dict(p=2, graded=True), dict(p=2, r=1, graded=True)):
        out.append(dict(kind='errors', cfg=cfg))
        d = sum(v for k, v in cfg.items() if k in 'pqr')
        for gs in [g for n in (1, 2) for g in itertools.combinations(range(d + 1), n)]:
            out.append(dict(kind='construct', cfg=cfg, form='grades', grades=list(gs), keys=[], sseed=1))
    return out


def _spellings(name, rng, limit=None):
    w = name[1:]
    if len(w) <= 1:
        return [name]
    ps = ['e' + ''.join(p) for p in itertools.permutations(w)]
    if limit and len(ps) > limit:
        ps = [ps[0]] + rng.sample(ps[1:], limit - 1)
    return ps


def _readback_claims(alg, km, x, expected, tag, rng):
    """expected: {kingdon key: label} (the element that was specified)."""
    claims = []
    # getattr for every spelling of every blade
    for K, name in alg.bin2canon.items():
        for sp in _spellings(name, rng, limit=6 if alg.d <= 4 else 3):
            s_ref, k_ref = km.spelling(sp)
            want = expected.get(K, 0)
            claims.append(Eq(f'{tag}:getattr[{sp}]', getattr(x, sp), (want if s_ref > 0 else -want) if not isinstance(want, int) or want != 0 else 0))
    # items / keys / values / containment
    got = coeffs(x)
    claims += eq_claims(f'{tag}:items', got, expected)
    ks, vs = tuple(x.keys()), list(x.values())
    if len(ks) != len(vs) or len(set(ks)) != len(ks):
        claims.append(Fail(f'{tag}:keys-values', f'keys {ks} / {len(vs)} values'))
    for K, name in alg.bin2canon.items():
        stored = K in ks
        if (K in x) != stored or (name in x) != stored:
            claims.append(Fail(f'{tag}:contains[{name}]', f'`in` disagrees with keys() for {name}'))
        if K in expected and not stored:
            claims.append(Fail(f'{tag}:dropped[{name}]', f'supplied coefficient on {name} is not stored', fkey='construct|dropped-coefficient'))
    # grade()
    for g in range(alg.d + 1):
        claims += eq_claims(f'{tag}:grade[{g}]', coeffs(x.grade(g)), {k: v for k, v in expected.items() if popcount(k) == g})
    # asfullmv, both layouts
    full = x.asfullmv()
    claims += eq_claims(f'{tag}:asfullmv', coeffs(full), expected)
    if tuple(full.keys()) != tuple(alg.canon2bin.values()):
        claims.append(Fail(f'{tag}:asfullmv-order', f'canonical layout has keys {tuple(full.keys())}'))
    fb = x.asfullmv(canonical=False)
    claims += eq_claims(f'{tag}:asfullmv-binary', coeffs(fb), expected)
    if tuple(fb.keys()) != tuple(range(2 ** alg.d)):
        claims.append(Fail(f'{tag}:asfullmv-binary-order', f'binary layout has keys {tuple(fb.keys())}'))
    # map, one and two arguments
    m1 = x.map(lambda v: v * 3)
    claims += eq_claims(f'{tag}:map1', coeffs(m1), {k: v * 3 for k, v in got.items()})
    m2 = x.map(lambda k, v: v * (k + 1))
    claims += eq_claims(f'{tag}:map2', coeffs(m2), {k: v * (k + 1) for k, v in got.items()})
    return claims


def run_case(desc, V):
    kind = desc['kind']
    if kind == 'errors':
        return _run_errors(desc)
    alg = get_alg(desc['cfg'])
    km = kmap(alg)
    rng = random.Random(desc.get('sseed', 0))
    from kingdon.multivector import MultiVector
    if kind == 'construct':
        form = desc['form']
        keys = list(desc['keys'])
        labels = {k: V.var(f'v_{k}') for k in keys}
        expected = dict(labels)
        if form == 'keys-int':
            x = alg.multivector(keys=tuple(keys), values=[labels[k] for k in keys])
        elif form == 'keys-name':
            x = alg.multivector(keys=tuple(alg.bin2canon[k] for k in keys), values=[labels[k] for k in keys])
        elif form == 'keys-mixed':
            x = alg.multivector(keys=tuple(alg.bin2canon[k] if i % 2 else k for i, k in enumerate(keys)), values=[labels[k] for k in keys])
        elif form == 'mapping-int':
            x = alg.multivector({k: labels[k] for k in keys})
        elif form == 'mapping-name':
            x = alg.multivector({alg.bin2canon[k]: labels[k] for k in keys})
        elif form == 'fromkeysvalues':
            x = MultiVector.fromkeysvalues(alg, tuple(keys), [labels[k] for k in keys])
        elif form == 'dense':
            order = list(alg.canon2bin.values())
            x = alg.multivector(values=[labels[k] for k in order])
        elif form in ('keys-name-permuted', 'mapping-name-permuted'):
            # blade names given as keys in a NON-canonical spelling: the library may refuse them, but if it accepts them the
            # coefficient must land on the blade with the permutation sign
            names, expected = [], {}
            for i, k in enumerate(keys):
                name = alg.bin2canon[k]
                sp = rng.choice(_spellings(name, rng)) if len(name) > 2 else name
                s_ref, k_ref = km.spelling(sp)
                names.append(sp)
                expected[k] = labels[k] if s_ref > 0 else -labels[k]
            try:
                if form == 'keys-name-permuted':
                    x = alg.multivector(keys=tuple(names), values=[labels[k] for k in keys])
                else:
                    x = alg.multivector({n: labels[k] for n, k in zip(names, keys)})
            except (KeyError, ValueError, TypeError):
                return [Eq('refused', 1, 1)]
        elif form in ('kwargs', 'kwargs-permuted'):
            kw = {}
            expected = {}
            for i, k in enumerate(keys):
                name = alg.bin2canon[k]
                sp = name
                if form == 'kwargs-permuted' and len(name) > 2 and (i % 3 != 2):
                    sp = rng.choice(_spellings(name, rng))
                s_ref, k_ref = km.spelling(sp)
                kw[sp] = labels[k]
                expected[k] = labels[k] if s_ref > 0 else -labels[k]
            x = alg.multivector(**kw)
        elif form == 'grades':
            gs = tuple(desc['grades'])
            ks = [k for k in alg.canon2bin.values() if popcount(k) in gs]
            labels = {k: V.var(f'v_{k}') for k in ks}
            expected = dict(labels)
            x = alg.multivector(values=[labels[k] for k in ks], grades=gs)
        else:
            raise ValueError(form)
        return _readback_claims(alg, km, x, expected, form, rng)
    if kind == 'convenience':
        claims = []
        d = alg.d
        order = list(alg.canon2bin.values())
        ctors = [('scalar', (0,)), ('vector', (1,)), ('bivector', (2,)), ('trivector', (3,)), ('quadvector', (4,)),
                 ('pseudoscalar', (d,)), ('pseudovector', (d - 1,)), ('pseudobivector', (d - 2,)), ('pseudotrivector', (d - 3,)), ('pseudoquadvector', (d - 4,)),
                 ('evenmv', tuple(g for g in range(d + 1) if g % 2 == 0)), ('oddmv', tuple(g for g in range(d + 1) if g % 2 == 1))]
        for cname, gs in ctors:
            if any(g < 0 or g > d for g in gs):
                continue
            ks = [k for k in order if popcount(k) in gs]
            if not ks:
                continue
            labels = {k: V.var(f'{cname}_{k}') for k in ks}
            x = getattr(alg, cname)([labels[k] for k in ks])
            claims += eq_claims(f'{cname}', coeffs(x), labels)
            # keyword form through the convenience constructor
            k0 = ks[-1]
            y = getattr(alg, cname)(**{alg.bin2canon[k0]: labels[k0]})
            claims += eq_claims(f'{cname}-kw', coeffs(y), {k0: labels[k0]})
        x = alg.purevector([V.var('pv')] * 0 + [V.var(f'pv_{k}') for k in order if popcount(k) == min(1, d)], grade=min(1, d))
        claims += eq_claims('purevector', coeffs(x), {k: V.var(f'pv_{k}') for k in order if popcount(k) == min(1, d)})
        return claims
    if kind == 'byname':
        import sympy
        keys = tuple(desc['keys'])
        x = alg.multivector(name='x', keys=keys)
        claims = []
        if tuple(x.keys()) != keys:
            claims.append(Fail('byname:keys', f'keys {tuple(x.keys())} != requested {keys}'))
        for k, v in zip(x.keys(), x.values()):
            want = 'x' + alg.bin2canon[k][1:]
            if not (isinstance(v, sympy.Symbol) and v.name == want):
                claims.append(Fail(f'byname[{k}]', f'symbol on {alg.bin2canon[k]} is {v!r}, expected {want}'))
        y = alg.vector(name='y')
        for k, v in zip(y.keys(), y.values()):
            if popcount(k) != 1 or str(v) != 'y' + alg.bin2canon[k][1:]:
                claims.append(Fail(f'byname-vector[{k}]', f'{v!r} on key {k}'))
        claims.append(Eq('reached', 1, 1))
        return claims
    if kind == 'filter':
        keys = list(desc['keys'])
        labels = {k: V.var(f'v_{k}') for k in keys}
        x = MultiVector.fromkeysvalues(alg, tuple(keys), [labels[k] for k in keys])
        f = x.filter()                      # default simp_func: kept iff truthy
        kept = set(f.keys())
        claims = []
        got = coeffs(f)
        for k in keys:
            # on this path: either kept with the same label, or dropped and then the label must be zero
            claims.append(Eq(f'filter[{k}]', got.get(k, 0), labels[k]))
        if not kept <= set(keys):
            claims.append(Fail('filter:extra', f'filter invented keys {kept - set(keys)}'))
        f2 = x.filter(lambda k, v: k != keys[0])
        claims += eq_claims('filter2', coeffs(f2), {k: v for k, v in labels.items() if k != keys[0]})
        return claims
    raise ValueError(kind)


def _run_errors(desc):
    alg = make_alg(desc['cfg'])
    d = alg.d
    claims = []

    def must_raise(tag, fn):
        try:
            r = fn()
        except Exception:
            return
        claims.append(Fail(f'error:{tag}', f'{tag}: produced {r!r} instead of raising', fkey=f'errors|{tag}'))

    if not alg.graded:
        must_raise('length-mismatch', lambda: alg.multivector(keys=(0, 1), values=[1]))
        must_raise('length-mismatch-long', lambda: alg.multivector(keys=(1,), values=[1, 2, 3]) if d >= 1 else (_ for _ in ()).throw(ValueError()))
    if d >= 2:
        must_raise('keys-outside-grades', lambda: alg.multivector(keys=(3,), values=[1], grades=(1,)))
        must_raise('kwargs-outside-grades', lambda: alg.vector(**{alg.bin2canon[3]: 1}))
    must_raise('invalid-grade', lambda: alg.multivector(values=[1], grades=(d + 1,)))
    # keys that are no blade of this algebra
    must_raise('key-outside-algebra', lambda: alg.multivector(keys=(2 ** d,), values=[5]))
    must_raise('key-outside-algebra-mixed', lambda: alg.multivector(keys=(0, 2 ** d + 1), values=[1, 5]))
    must_raise('key-outside-algebra-mapping', lambda: alg.multivector({0: 1, 2 ** (d + 1): 5}))
    if d >= 1:
        must_raise('key-outside-algebra-vector', lambda: alg.vector(keys=(2 ** d,), values=[5]))
    must_raise('negative-grade', lambda: alg.multivector(values=[1], grades=(-1,)))
    if d >= 1:
        must_raise('wrong-number-of-values-for-grade', lambda: alg.multivector(values=[1] * (d + 1), grades=(1,)))
    if alg.graded and d >= 2:
        must_raise('graded-incomplete-grade', lambda: alg.multivector(keys=(1,), values=[1]))
        must_raise('graded-incomplete-grade-kw', lambda: alg.multivector(**{alg.bin2canon[1]: 1}))
    # ---- keyword form: nothing supplied may be dropped silently
    names = list(alg.canon2bin)                      # canonical blade names
    si = alg.start_index
    gens = [format(si + i, 'x') for i in range(d)]
    outside = [format(x, 'x') for x in range(16) if format(x, 'x') not in gens]     # generator labels this algebra does not have

    def coeff_or_raise(tag, fn, want: dict, note):
        """fn() either raises, or returns a multivector holding exactly `want` ({key: value}); anything else drops / moves a coefficient."""
        try:
            r = fn()
        except Exception:
            return
        got = dict(zip(r.keys(), r.values()))
        bad = [k for k in set(got) | set(want) if got.get(k, 0) != want.get(k, 0)]
        if bad:
            claims.append(Fail(f'silent:{tag}', f'{note}: returned coefficients {got} (expected {want} or an error)', fkey=f'errors|silently-dropped|{tag}'))

    if d >= 1 and outside and not alg.graded:
        first = names[1]
        for o in outside[:4]:
            coeff_or_raise('keyword-blade-outside-algebra', lambda o=o: alg.multivector(**{first: 1, 'e' + o: 7}), {'__never__': 1},
                           f'keyword e{o} names no blade of this algebra (generators {gens})')
        x = alg.multivector(keys=tuple(range(2 ** d)), values=[3 + k for k in range(2 ** d)])
        for o in outside[:6]:
            try:
                v = getattr(x, 'e' + o)
            except Exception:
                continue
            if v != 0:
                claims.append(Fail('absent-blade-reads-nonzero', f'x.e{o} (no blade of this algebra, generators {gens}) reads {v!r}, expected 0', fkey='errors|absent-blade-reads-nonzero'))
            if d >= 1:
                try:
                    v2 = getattr(x, 'e' + gens[0] + o)
                except Exception:
                    continue
                if v2 != 0:
                    claims.append(Fail('absent-blade-reads-nonzero', f'x.e{gens[0]}{o} reads {v2!r}, expected 0', fkey='errors|absent-blade-reads-nonzero'))
    if d >= 2 and not alg.graded:
        full = [1] * (2 ** d)
        top = names[-1]
        coeff_or_raise('keyword-next-to-values', lambda: alg.multivector(list(range(1, 2 ** d + 1)), **{top: 50}),
                       {'__never__': 1}, 'a keyword coefficient given next to values=')
        coeff_or_raise('keyword-next-to-keys', lambda: alg.multivector(keys=(1,), values=[2], **{top: 50}),
                       {'__never__': 1}, 'a keyword coefficient given next to keys=/values=')
        # two spellings of one blade: the sum of what was supplied, or an error
        k12 = [k for k in alg.bin2canon if bin(k).count('1') == 2][0]
        w = alg.bin2canon[k12][1:]
        sp1, sp2 = 'e' + w, 'e' + w[::-1]
        from ..kapi import kmap
        km = kmap(alg)
        s1, kk1 = km.spelling(sp1)
        s2, kk2 = km.spelling(sp2)
        _, kcanon = km.spelling(alg.bin2canon[k12])
        sc = km.spelling(alg.bin2canon[k12])[0]
        coeff_or_raise('two-spellings-of-one-blade', lambda: alg.multivector(**{sp1: 1, sp2: 2}), {k12: (s1 * 1 + s2 * 2) * sc},
                       f'keywords {sp1}=1 and {sp2}=2 (two spellings of one blade)')
    if d >= 2 and not alg.graded:
        import sympy as _sp
        n1 = alg.bin2canon[1]
        must_raise('duplicate-keys', lambda: alg.multivector(keys=(1, 1), values=[2, 3]))
        must_raise('duplicate-keys-names', lambda: alg.multivector(keys=(n1, n1), values=[2, 3]))
        must_raise('duplicate-keys-mixed', lambda: alg.multivector(keys=(n1, 1), values=[2, 3]))
        coeff_or_raise('keyword-odd-spelling-string-value', lambda: alg.multivector(**{sp2: 'x'}), {k12: s2 * sc * _sp.Symbol('x')},
                       f'keyword {sp2} (an odd spelling) with the string value "x"')
        coeff_or_raise('keyword-not-a-blade-name', lambda: alg.multivector(**{'x' + w: 5}), {'__never__': 1}, f'the keyword x{w} is no blade name')
        coeff_or_raise('keyword-not-a-blade-name', lambda: alg.multivector(**{'_' + w[:1]: 5}), {'__never__': 1}, f'the keyword _{w[:1]} is no blade name')
        # (keys=() next to a full list of values is the documented default 'no keys given', not a length mismatch)
        g1_ = [k for k in alg.bin2canon if bin(k).count('1') == 1]
        coeff_or_raise('keys-from-a-reversed-iterator', lambda: alg.vector([10 * (i + 1) for i in range(len(g1_))], keys=reversed(tuple(g1_))),
                       dict(zip(reversed(g1_), [10 * (i + 1) for i in range(len(g1_))])), 'integer keys given as a one-shot iterator (reversed)')
        coeff_or_raise('keys-from-a-generator', lambda: alg.multivector(keys=(k for k in (3, 1)), values=[12, 7]), {3: 12, 1: 7}, 'integer keys given as a generator')
        coeff_or_raise('keys-from-a-map-object', lambda: alg.multivector(keys=map(int, ('3', '1')), values=[12, 7]), {3: 12, 1: 7}, 'integer keys given as a map object')
        xx = alg.multivector(keys=(k12, 1), values=[4, 9])
        for tag, item, want_in in (('canonical', alg.bin2canon[k12], True), ('odd-spelling', sp2 if sp2 != alg.bin2canon[k12] else sp1, True), ('absent', alg.bin2canon[2], False),
                                   ('absent-odd-spelling', 'e' + alg.bin2canon[2 ** d - 1][1:][::-1] if d >= 3 else alg.bin2canon[2], False), ('int-key', k12, True)):
            try:
                got_in = item in xx
            except Exception as e:  # noqa
                claims.append(Fail(f'contains:{tag}', f'{item!r} in x raises {type(e).__name__}: {e}', fkey=f'errors|containment|{tag}'))
                continue
            if bool(got_in) != want_in:
                claims.append(Fail(f'contains:{tag}', f'{item!r} in x is {got_in}, expected {want_in}', fkey=f'errors|containment|{tag}'))
    if d >= 2 and not alg.graded:
        # value types whose exact read-back a float detour would destroy: complex and big-integer arrays, python complex, Fraction
        import numpy as _np
        from fractions import Fraction as _Fr
        ks = [k12, 1, 0]
        for vt, mk in (('complex-array', lambda i: _np.array([1 + 2j * (i + 1), 3 - 1j])), ('bigint-array', lambda i: _np.array([2 ** 60 + i + 1, -(2 ** 59) - i], dtype=_np.int64)),
                       ('complex', lambda i: complex(i + 1, -2)), ('bigint', lambda i: 2 ** 70 + i), ('fraction', lambda i: _Fr(i + 1, 3)), ('float32-array', lambda i: _np.array([0.1 * (i + 1), 7.0], dtype=_np.float32))):
            for container in ('list', 'ndarray'):
                vals = [mk(i) for i in range(len(ks))]
                if container == 'ndarray':
                    if not hasattr(vals[0], 'shape'):
                        continue
                    vals = _np.array(vals)
                try:
                    xv = alg.multivector(keys=tuple(ks), values=vals)
                except Exception:
                    continue

                def same(a, b):
                    a, b = _np.asarray(a), _np.asarray(b)
                    return a.shape == b.shape and bool((a == b).all())
                for form, y in (('asfullmv', lambda: xv.asfullmv()), ('asfullmv-binary', lambda: xv.asfullmv(canonical=False)), ('grade', lambda: xv.grade(0, 1, 2)),
                                ('map-identity', lambda: xv.map(lambda v: v)), ('filter-all', lambda: xv.filter(lambda v: True))):
                    try:
                        r = y()
                    except Exception as e:  # noqa
                        claims.append(Fail(f'value-type:{vt}:{container}:{form}:raises', f'{form} of a multivector with {vt} coefficients ({container}) raises {type(e).__name__}: {e}',
                                           fkey=f'errors|value-types|{form}|raises'))
                        continue
                    for j, k in enumerate(ks):
                        got = getattr(r, alg.bin2canon[k])
                        if not same(got, (vals[j] if container == 'list' else vals[j])):
                            claims.append(Fail(f'value-type:{vt}:{container}:{form}[{k}]', f'{form} of a multivector with {vt} coefficients ({container}): blade {k} reads {got!r}, supplied {vals[j]!r}',
                                               fkey=f'errors|value-types|{form}'))
                            break
    if alg.graded and d >= 2:
        # complete grades given in another order than the canonical one: refused, or every value on the blade it was given for
        g1 = [k for k in alg.bin2canon if bin(k).count('1') == 1]
        g1r = g1[::-1]
        g1c = g1[1:] + g1[:1]
        for tag, ks in (('reversed', g1r), ('rotated', g1c)):
            vals = [10 * (i + 1) for i in range(len(ks))]
            want = dict(zip(ks, vals))
            coeff_or_raise(f'graded-keys-{tag}', lambda ks=ks, vals=vals: alg.multivector(vals, keys=tuple(ks)), want, f'graded mode, complete grade 1 given in {tag} key order')
            coeff_or_raise(f'graded-keys-{tag}-names', lambda ks=ks, vals=vals: alg.multivector(vals, keys=tuple(alg.bin2canon[k] for k in ks)), want,
                           f'graded mode, complete grade 1 given in {tag} key order by name')
            coeff_or_raise(f'graded-keys-{tag}-vector', lambda ks=ks, vals=vals: alg.vector(vals, keys=tuple(ks)), want, f'graded mode, vector() with {tag} keys')
        must_raise('graded-incomplete-grade-mapping', lambda: alg.multivector({1: 2}))
        must_raise('graded-incomplete-grade-mapping-names', lambda: alg.multivector({alg.bin2canon[1]: 2}))
        must_raise('graded-incomplete-grade-vector-mapping', lambda: alg.vector({1: 2}))
    claims.append(Eq('reached', 1, 1))
    return claims
