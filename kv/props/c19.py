"""
C19 -- exp, outer exponentials, sqrt, powers and norms obey their identities.

Algebraic part (Engine A, one query per case, all coefficient values):
 outerexp(x) = sum_k x^(wedge k)/k!  with the wedge powers computed by kingdon's own ^ on the same
 symbolic x (operands without scalar part: there the series is finite), and = the reference series;
 outersin / outercos = its odd / even parts; outertan * outercos = outersin (recorded denominator);
 sqrt(x)*sqrt(x) = x for Study numbers x = a + b*B (B a blade, or the bivectors of a 3-D algebra;
 assumptions a > 0 and radicands >= 0); x**0.5 is x.sqrt(); x**n = n-fold product, x**-n of the
 inverse, x**0 = 1; norm()^2 = normsq(); normalized(x).normsq() = 1.
exp (Engines A + F, the SKELETON): coefficients are proxies registered as numbers.Real (kv.sym.SVf) so that
 MultiVector.exp takes its numeric branches, numpy's cosh/sinh/cos/sinc are replaced by
 UNINTERPRETED functions for the duration of the harness, every sign test on x^2 becomes a
 solver-checked decision and all feasible paths are explored: proved is which branch each feasible
 path condition selects and that the result is cosh(l) + x*sinh(l)/l, 1 + x, cos(l) + x*sinc(l/pi)
 with l^2 = |x^2| on the right blades; the symbolic (sympy) branch is translated with the same
 uninterpreted symbols.  That cosh/sinhc equal the power series is a trusted textbook identity.
"""
from __future__ import annotations

import random
from fractions import Fraction
from math import factorial

import numpy as np
import z3

from ..core import Eq, Fail, Note
from .. import pat, ops, sym, sy2z3
from ..sym import SV, SVf
from ..kapi import get_alg, make_alg, mv, coeffs, mv_eq_claims, eq_claims, kmap
from ..ref import popcount

PROP = 'C19'
LEVEL = 'translation_validation'
ENGINES = ['A', 'F', 'S']
FUNCTIONS = ['codegen_outerexp/outersin/outercos/outertan', 'codegen_sqrt', 'MultiVector.__pow__', 'MultiVector.norm', 'MultiVector.normalized',
             'MultiVector.exp (all four branches)', 'MultiVector.filter', 'generated outerexp_/outersin_/outercos_/outertan_/sqrt_/normsq_ functions']
ASSUMPTIONS = ['coefficients are reals', 'float constants in generated code (1/k! as 0.1666...) snapped to rationals within 1e-12 relative',
               'sqrt: Study number with positive scalar part, radicands non-negative; divisions: denominators non-zero',
               'exp: cosh, sinh, cos, sinc are uninterpreted functions (no transcendental theory): branch selection, arguments and blade placement are proved, the power-series identity is trusted']
BOUNDS = {'quick': 'all (p,q,r) d<=3 and selected d=4; outer series on scalar-free patterns (grade unions, random sparse, dense bivector d<=4); sqrt on scalar+blade and scalar+bivectors(3-D); exp on every single-blade pattern and 2-blade commuting patterns; concrete norms (python and numpy reals, both signs of normsq); exp with ndarray coefficients (0-d, 1 and 3 entries; entry-wise against the float exp: mixed-sign / zero entries, 2-D, integer arrays, sign-changing vectors, 2-blades of array vectors)',
          'thorough': 'all (p,q,r) d<=4, d=5,6 sparse'}
OUTSIDE = ['cosh/sinh/cos/sinc = their power series', 'complex coefficients / negative a^2 - B^2', 'outertan of dense operands in d >= 5', 'outerexp of operands WITH scalar part (kingdon truncates and warns)',
           'exp() on numpy-array coefficients beyond the concrete arrays sampled by the exp-ndarray kinds (sampling, not a solver claim); complex and object arrays']
OPTS = {'rlimit': 300_000_000, 'canary_every': 10, 'max_paths': 64, 'case_budget_s': 120}
CHUNKS_PER_WORKER = 10


def cases(tier, seed):
    rng = random.Random(seed * 7919 + 19)
    out = []
    cfgs = [dict(p=p, q=q, r=r) for d in (1, 2, 3) for p, q, r in pat.pqr_all(d)]
    cfgs4 = [dict(p=4), dict(p=3, r=1), dict(p=3, q=1)] if tier == 'quick' else [dict(p=p, q=q, r=r) for p, q, r in pat.pqr_all(4)]
    for cfg in cfgs + cfgs4 + ([dict(p=5), dict(p=4, q=1, r=1)] if tier == 'thorough' else []):
        d = sum(cfg.values())
        order = pat.canon_order(d, 0 if cfg.get('r') == 1 else 1)
        nosc = [k for k in order if k != 0]
        pats = [[k for k in order if popcount(k) == g] for g in range(1, d + 1)]
        pats += [p for p in pat.RND(d, 6 if tier == 'quick' else 40, rng, max_len=4, min_len=1) if 0 not in p]
        pats += [[k for k in order if popcount(k) in (1, 2)]] if d <= 3 else []
        if d == 4:
            pats += [[3, 7], [3, 12, 7], [5, 10, 14, 11], [3, 12, 7, 1], [6, 9, 13, 15]]
        for ka in pats:
            if not ka:
                continue
            out.append(dict(kind='outer', cfg=cfg, ka=list(ka), tan=(d <= 3 or len(ka) <= 4)))
        # sqrt on Study numbers
        for k in (rng.sample(nosc, min(len(nosc), 4)) if nosc else []):
            out.append(dict(kind='sqrt', cfg=cfg, ka=[0, k]))
            out.append(dict(kind='sqrt', cfg=cfg, ka=[k, 0]))          # the scalar part need not be stored first
        if d == 3:
            bv = [k for k in order if popcount(k) == 2]
            out.append(dict(kind='sqrt', cfg=cfg, ka=[bv[1], 0, bv[0], bv[2]]))
            out.append(dict(kind='sqrt', cfg=cfg, ka=[0] + [k for k in order if popcount(k) == 2]))
        out.append(dict(kind='sqrt', cfg=cfg, ka=[0]))
        # powers and norms
        for ka in pat.RND(d, 3 if tier == 'quick' else 20, rng, max_len=3, min_len=1):
            out.append(dict(kind='pow', cfg=cfg, ka=list(ka)))
        for g in range(1, min(d, 2) + 1):
            out.append(dict(kind='norm', cfg=cfg, ka=[k for k in order if popcount(k) == g][:3]))
        # exp: every single blade; commuting 2-blade patterns through random picks
        for k in (nosc if d <= 3 else rng.sample(nosc, 6)):
            out.append(dict(kind='exp', cfg=cfg, ka=[k], fork=True))
            if rng.random() < 0.5:
                out.append(dict(kind='exp-sympy', cfg=cfg, ka=[k]))
        for k in (rng.sample(nosc, min(3, len(nosc))) if nosc else []):
            out.append(dict(kind='exp-sympy-assumptions', cfg=cfg, ka=[k]))
            out.append(dict(kind='exp-numpy-scalars', cfg=cfg, ka=[k]))
            out.append(dict(kind='exp-ndarray', cfg=cfg, ka=[k]))
            out.append(dict(kind='exp-ndarray-elementwise', cfg=cfg, ka=[k]))
        # exp of python-float 2-blades a ^ b (they square to a scalar only up to rounding residue) against the power series
        if d >= 2:
            out.append(dict(kind='exp-float-scaled', cfg=cfg))
        if d >= 3:
            out.append(dict(kind='exp-float-blade', cfg=cfg))
        # norm / normalized on CONCRETE python floats and numpy scalars (the type-dispatching numeric paths), every sign of normsq
        for k in (rng.sample(nosc, min(4, len(nosc))) if nosc else []):
            out.append(dict(kind='norm-concrete', cfg=cfg, ka=[k]))
            out.append(dict(kind='norm-concrete', cfg=cfg, ka=[0, k]))
        for _ in range(2 if tier == 'quick' else 12):
            if len(nosc) >= 2:
                out.append(dict(kind='exp', cfg=cfg, ka=rng.sample(nosc, 2), fork=True))
        if d >= 2:
            out.append(dict(kind='exp', cfg=cfg, ka=[k for k in order if popcount(k) == 2][:3], fork=True))
    return out


# --------------------------------------------------------------------------- algebraic part

def _scale(d, c):
    return {k: v * c for k, v in d.items()}


def _acc(a, b):
    r = dict(a)
    for k, v in b.items():
        r[k] = r[k] + v if k in r else v
    return r


def run_case(desc, V):
    kind = desc['kind']
    if kind in ('exp', 'exp-sympy'):
        return _run_exp(desc, V)
    if kind in ('exp-sympy-assumptions', 'exp-numpy-scalars', 'exp-ndarray'):
        return _run_exp_concrete(desc, V)
    if kind == 'norm-concrete':
        return _run_norm_concrete(desc, V)
    if kind == 'exp-float-blade':
        return _run_exp_float_blade(desc)
    if kind == 'exp-ndarray-elementwise':
        return _run_exp_ndarray_elementwise(desc)
    if kind == 'exp-float-scaled':
        return _run_exp_float_scaled(desc)
    alg = get_alg(desc['cfg'])
    km = kmap(alg)
    x = mv(alg, V, 'x', desc['ka'])
    X = coeffs(x)
    claims = []
    if kind == 'outer':
        d = alg.d
        # wedge powers with kingdon's own ^ on the same operand
        terms = [{0: 1}, dict(X)]
        w = x
        for k in range(2, d + 1):
            w = w ^ x
            terms.append(_scale(coeffs(w), Fraction(1, factorial(k))))
        series = {}
        for t in terms:
            series = _acc(series, t)
        odd, even = {}, {}
        for i, t in enumerate(terms):
            if i % 2:
                odd = _acc(odd, t)
            else:
                even = _acc(even, t)
        claims += mv_eq_claims('outerexp=series', x.outerexp(), series)
        ref_terms = km.ref.outerexp_terms(km.to_ref(X))
        ref_series = {}
        for t in ref_terms:
            ref_series = _acc(ref_series, t)
        claims += eq_claims('outerexp=ref', coeffs(x.outerexp()), km.from_ref(ref_series))
        claims += mv_eq_claims('outersin=odd', x.outersin(), odd)
        claims += mv_eq_claims('outercos=even', x.outercos(), even)
        if desc.get('tan'):
            try:
                t = x.outertan()
            except ZeroDivisionError:
                t = None
            if t is not None:
                claims += mv_eq_claims('outertan*outercos=outersin', t * x.outercos(), coeffs(x.outersin()))
        return claims
    if kind == 'sqrt':
        if V.symbolic:
            sym.cur().assume(x.values()[0].t > 0, 'scalar part > 0')
        r = x.sqrt()
        claims += mv_eq_claims('sqrt*sqrt=x', r * r, X)
        claims += mv_eq_claims('x**0.5=sqrt', x ** 0.5, coeffs(r))
        if V.symbolic and len(desc['ka']) > 1:
            # the square root taken is the principal one: its scalar part is non-negative
            sc = coeffs(r).get(0, 0)
            claims.append(Note('nontrivial', ''))
        return claims
    if kind == 'pow':
        acc = x
        claims += mv_eq_claims('x**0', x ** 0, {0: 1})
        claims += mv_eq_claims('x**1', x ** 1, X)
        nmax = 12 if len(desc['ka']) <= 2 else 7
        for n in range(2, nmax + 1):
            acc = acc * x
            claims += mv_eq_claims(f'pow[{n}]', x ** n, coeffs(acc))
        try:
            xi = x.inv()
        except ZeroDivisionError:
            return claims
        acc = xi
        claims += mv_eq_claims('x**-1', x ** -1, coeffs(xi))
        for n in range(2, (9 if len(desc['ka']) <= 2 else 6)):
            acc = acc * xi
            claims += mv_eq_claims(f'negpow[{n}]', x ** (-n), coeffs(acc))
        return claims
    if kind == 'norm':
        ns = x.normsq()
        NS = coeffs(ns)
        if not NS:
            # normsq is identically zero (null element): norm() should be 0
            try:
                n0 = x.norm()
            except Exception as e:  # noqa
                return [Fail('norm-of-null-element', f'norm() of an element whose normsq is identically zero raises {type(e).__name__}: {e}',
                             fkey=f'norm|null-element|raises:{type(e).__name__}')]
            return mv_eq_claims('norm-of-null', n0, {})
        if V.symbolic:
            s_ = z3.Solver(); s_.set('timeout', 20000)
            s_.add(sym.term(NS.get(0, 0)) > 0)
            if s_.check() == z3.unsat:
                return [Eq('outside-domain', 1, 1), Note('domain', 'normsq is never positive for this pattern: norm() is outside the real domain')]
            sym.cur().assume(sym.term(NS.get(0, 0)) > 0, 'normsq > 0')
        n = x.norm()
        claims += mv_eq_claims('norm^2=normsq', n * n, NS)
        u = x.normalized()
        claims += mv_eq_claims('normalized.normsq=1', u.normsq(), {0: 1})
        claims += mv_eq_claims('normalized*norm=x', u * n, X)
        return claims
    raise ValueError(kind)


def _run_exp_float_blade(desc):
    """concrete floats (sampling, stated as such): exp(a ^ b) for float vectors a, b equals the power series of a ^ b."""
    from ..core import concrete_equal
    alg = get_alg(desc['cfg'])
    d = alg.d
    order = list(alg.canon2bin.values())
    vec = [k for k in order if bin(k).count('1') == 1]
    rng = random.Random(d * 101 + alg.q * 7 + alg.r)
    claims = [Note('nontrivial', ''), Eq('reached', 1, 1)]
    for trial in range(6):
        a = alg.multivector(keys=tuple(vec), values=[round(rng.uniform(-1.5, 1.5), 3) for _ in vec])
        b = alg.multivector(keys=tuple(vec), values=[round(rng.uniform(-1.5, 1.5), 3) for _ in vec])
        B = a ^ b
        if not len(B.keys()):
            continue
        fkey = 'exp|float-2-blade'
        try:
            got = coeffs(B.exp())
        except Exception as e:  # noqa
            claims.append(Fail(f'exp-float-blade[{trial}]:raises', f'exp(a ^ b) for float vectors in {d}-D raises {type(e).__name__}: {str(e)[:100]} (a ^ b squares to a scalar up to rounding)',
                               fkey=fkey + '|raises'))
            continue
        series, term = {0: 1.0}, alg.multivector(keys=(0,), values=[1.0])
        for n in range(1, 40):
            term = (term * B) * (1.0 / n)
            for k_, v_ in coeffs(term).items():
                series[k_] = series.get(k_, 0.0) + v_
        for k_ in set(series) | set(got):
            if not concrete_equal(complex(got.get(k_, 0)), complex(series.get(k_, 0)), tol=1e-8):
                claims.append(Fail(f'exp-float-blade[{trial},{k_}]', f'exp(a ^ b) has {got.get(k_, 0)!r} on blade {k_}, the power series {series.get(k_, 0)!r}', fkey=fkey))
                break
    return claims


def _run_exp_float_scaled(desc):
    """concrete floats (sampling, stated as such): x = alpha * N + beta * B with a null vector N (a null generator, or e_i + e_j of
    opposite squares) and a generator B orthogonal to it squares EXACTLY to beta^2 B^2 in floating point, whatever alpha is: exp(x)
    is the closed form of that square also when alpha is 1e6 .. 1e9 times beta (a rounding tolerance must not eat the square),
    and for a numpy batch that holds a small and a large alpha next to each other."""
    import math
    import numpy as np
    from ..core import concrete_equal
    alg = get_alg(desc['cfg'])
    sig = [int(v) for v in alg.signature]
    gens = [1 << i for i in range(alg.d)]
    claims = [Note('nontrivial', ''), Eq('reached', 1, 1)]
    nulls = [((g,), (1.0,)) for g, s_ in zip(gens, sig) if s_ == 0]
    pos = [g for g, s_ in zip(gens, sig) if s_ == 1]
    neg = [g for g, s_ in zip(gens, sig) if s_ == -1]
    if pos and neg:
        nulls.append(((pos[0], neg[0]), (1.0, 1.0)))
    beta = 0.75
    for nkeys, ncoef in nulls:
        for B, sB in zip(gens, sig):
            if B in nkeys:
                continue
            l = beta
            c0, s0 = (math.cosh(l), math.sinh(l) / l) if sB > 0 else ((1.0, 1.0) if sB == 0 else (math.cos(l), math.sin(l) / l))
            # (for e_i + e_j the square alpha^2 - alpha^2 + beta^2 is exact only while beta^2 fits below alpha^2: alpha <= 2e6)
            for alpha in ((1.0, 2e6, 3e9) if len(nkeys) == 1 else (1.0, 2e6)):
                keys = tuple(nkeys) + (B,)
                vals = [alpha * c for c in ncoef] + [beta]
                fkey = 'exp|float|scaled-coefficients'
                try:
                    got = coeffs(alg.multivector(keys=keys, values=vals).exp())
                except Exception as e:  # noqa
                    claims.append(Fail(f'exp-scaled[{keys},{alpha}]:raises', f'exp() of {dict(zip(keys, vals))} raised {type(e).__name__}: {str(e)[:80]}', fkey=fkey + '|raises'))
                    continue
                want = {0: c0, **{k_: s0 * v_ for k_, v_ in zip(keys, vals)}}
                for k_ in set(want) | set(got):
                    if not concrete_equal(complex(got.get(k_, 0)), complex(want.get(k_, 0)), tol=1e-9):
                        claims.append(Fail(f'exp-scaled[{keys},{alpha},{k_}]', f'exp() of {dict(zip(keys, vals))} (square {sB * beta * beta} exactly) has {got.get(k_, 0)!r} on blade {k_}, the closed form {want.get(k_, 0)!r}', fkey=fkey))
                        break
            # a batch holding a small and a large alpha
            al = np.array([1.0, 2e6])
            keys = tuple(nkeys) + (B,)
            vals = [al * c for c in ncoef] + [np.array([beta, beta])]
            fkey = 'exp|ndarray|scaled-coefficients'
            try:
                got = coeffs(alg.multivector(keys=keys, values=vals).exp())
            except Exception as e:  # noqa
                claims.append(Fail(f'exp-scaled-batch[{keys}]:raises', f'exp() of a batch with coefficients of very different size raised {type(e).__name__}: {str(e)[:80]}', fkey=fkey + '|raises'))
                continue
            for i_ in range(2):
                want = {0: c0, **{k_: s0 * float(np.broadcast_to(v_, (2,))[i_]) for k_, v_ in zip(keys, vals)}}
                for k_ in set(want) | set(got):
                    g_ = complex(np.broadcast_to(np.asarray(got.get(k_, 0)), (2,))[i_])
                    if not concrete_equal(g_, complex(want.get(k_, 0)), tol=1e-9):
                        claims.append(Fail(f'exp-scaled-batch[{keys},{i_},{k_}]', f'exp() of a batch: entry {i_} has {g_!r} on blade {k_}, the closed form {want.get(k_, 0)!r}', fkey=fkey))
                        break
    return claims


def _run_exp_ndarray_elementwise(desc):
    """concrete arrays (sampling, stated as such): exp() of a simple element whose coefficients are numpy arrays equals, element by
    element, exp() of the element with that entry as python floats (which the exp / exp-float-blade kinds tie to the power series).
    Subjects: one blade with entries of both signs and zeros, 2-D arrays, integer arrays; a vector a e_i + b e_j whose square changes
    sign along the array (mixed signatures); 2-blades u ^ v of array-valued vectors; an array next to a plain number."""
    import numpy as np
    from ..core import concrete_equal
    alg = get_alg(desc['cfg'])
    d = alg.d
    order = list(alg.canon2bin.values())
    vec = [k for k in order if bin(k).count('1') == 1]
    rng = np.random.default_rng(d * 131 + alg.q * 11 + alg.r)
    claims = [Note('nontrivial', ''), Eq('reached', 1, 1)]
    subjects = []
    blade = desc['ka'][0]
    subjects.append(('one-blade-mixed-entries', (blade,), [np.array([0.5, -1.5, 0.0, 2.0])]))
    subjects.append(('one-blade-2d', (blade,), [np.array([[0.1, 0.2, 0.0], [-0.3, 0.4, 1.0]])]))
    subjects.append(('one-blade-int', (blade,), [np.array([1, 0, -2])]))
    if len(vec) >= 2:
        i, j = vec[0], vec[-1]
        subjects.append(('vector-sign-changes', (i, j), [np.array([2.0, 1.0, 1.0, 0.0]), np.array([1.0, 2.0, 1.0, 0.0])]))
        subjects.append(('array-next-to-number', (i, j), [np.array([2.0, 0.5, 0.0]), 1.0]))
    if d >= 3:
        u = alg.multivector(keys=tuple(vec), values=list(np.round(rng.uniform(-1.5, 1.5, size=(len(vec), 4)), 3)))
        v = alg.multivector(keys=tuple(vec), values=list(np.round(rng.uniform(-1.5, 1.5, size=(len(vec), 4)), 3)))
        B = u ^ v
        if len(B.keys()):
            subjects.append(('2-blade-of-array-vectors', tuple(B.keys()), list(B.values())))
    for tag, keys, vals in subjects:
        fkey = f'exp|ndarray|elementwise|{tag}'
        x = alg.multivector(keys=keys, values=vals)
        shape = np.broadcast_shapes(*[np.shape(v) for v in vals])
        try:
            got = coeffs(x.exp())
        except NotImplementedError:
            # not simple for some entry: then no entry-wise exp is demanded, but every entry-wise operand must refuse as well
            simple = []
            for idx in np.ndindex(*shape):
                xi = alg.multivector(keys=keys, values=[float(np.broadcast_to(np.asarray(v), shape)[idx]) for v in vals])
                try:
                    xi.exp(); simple.append(True)
                except NotImplementedError:
                    simple.append(False)
            if all(simple):
                claims.append(Fail(f'exp-ndarray-{tag}:refused', f'exp() refuses the array-valued element {tag} as not simple although every entry is', fkey=fkey + '|raises'))
            continue
        except Exception as e:  # noqa
            claims.append(Fail(f'exp-ndarray-{tag}:raises', f'exp() of the array-valued element {tag} raised {type(e).__name__}: {str(e)[:100]}', fkey=fkey + '|raises'))
            continue
        for idx in np.ndindex(*shape):
            xi = alg.multivector(keys=keys, values=[float(np.broadcast_to(np.asarray(v), shape)[idx]) for v in vals])
            try:
                want = coeffs(xi.exp())
            except Exception:  # noqa
                continue
            bad = None
            for k_ in set(want) | set(got):
                g = np.broadcast_to(np.asarray(got.get(k_, 0)), shape)[idx]
                if not concrete_equal(complex(g), complex(want.get(k_, 0)), tol=1e-8):
                    bad = (k_, g, want.get(k_, 0))
                    break
            if bad:
                claims.append(Fail(f'exp-ndarray-{tag}{list(idx)}', f'exp() of the array-valued element {tag}: entry {idx} has {bad[1]!r} on blade {bad[0]}, exp() of that entry alone has {bad[2]!r}', fkey=fkey))
                break
    return claims


def _run_norm_concrete(desc, V):
    """norm()**2 = normsq and normalized().normsq() = 1 on concrete floats / numpy scalars (complex arithmetic when normsq < 0):
    sampling on concrete values of the numeric type dispatch, stated as such."""
    import numpy as np
    from ..core import concrete_equal
    alg = get_alg(desc['cfg'])
    claims = [Note('nontrivial', '')]
    ka = tuple(desc['ka'])
    for tname, conv in (('float', float), ('int', int), ('np.float64', np.float64), ('np.float32', np.float32)):
        for vals in ([3.0, 2.0], [1.0, 2.0], [0.5, 1.5], [2.0, 1.0]):
            if tname == 'int' and any(v != int(v) for v in vals):
                continue
            vs = [conv(v) for v in vals[-len(ka):]]
            x = alg.multivector(keys=ka, values=vs)
            try:
                ns = x.normsq()
            except Exception:
                continue
            NS = coeffs(ns)
            if set(NS) - {0} and any(abs(complex(v)) > 1e-12 for k_, v in NS.items() if k_ != 0):
                continue                    # x*~x is not a scalar: the Study-number domain of C19's sqrt, covered symbolically
            n0 = complex(NS.get(0, 0))
            if abs(n0) < 1e-12:
                continue                    # null element (open finding norm|null-element)
            if n0.real < 0 and tname.startswith('np.'):
                continue                    # numpy's real square root of a negative number is nan by numpy's own rules: not demanded
            fkey = f'norm|concrete|{tname}|{"negative" if n0.real < 0 else "positive"}-normsq'
            try:
                n = x.norm()
                u = x.normalized()
            except Exception as e:  # noqa
                claims.append(Fail(f'norm-raises[{tname},{vals}]', f'norm()/normalized() of {dict(zip(ka, vs))} raised {type(e).__name__}: {e}', fkey + '|raises'))
                continue
            nn = coeffs(n * n)
            if not concrete_equal(nn.get(0, 0), n0, tol=1e-5) or any(abs(complex(v)) > 1e-6 for k_, v in nn.items() if k_ != 0):
                claims.append(Fail(f'norm^2[{tname},{vals}]', f'norm()**2 = {nn} but normsq = {NS} for {dict(zip(ka, vs))}', fkey))
            un = coeffs(u.normsq())
            if not concrete_equal(un.get(0, 0), 1, tol=1e-5) or any(abs(complex(v)) > 1e-6 for k_, v in un.items() if k_ != 0):
                claims.append(Fail(f'normalized.normsq[{tname},{vals}]', f'normalized().normsq() = {un}, expected 1, for {dict(zip(ka, vs))}', fkey))
    # an element whose squared norm is the NUMBER zero although its pattern can have a non-zero one (an ideal line stored
    # with all six bivector coefficients): the norm is 0
    if alg.r >= 1 and alg.d >= 3:
        order = list(alg.canon2bin.values())
        g2 = [k for k in order if bin(k).count('1') == 2]
        null_bits = [i for i in range(alg.d) if alg.signs[2 ** i, 2 ** i] == 0]
        vals = [1.0 + j if any(k >> i & 1 for i in null_bits) else 0.0 for j, k in enumerate(g2)]
        x = alg.multivector(keys=tuple(g2), values=vals)
        try:
            n = x.norm()
            if any(abs(complex(v)) > 1e-12 for v in n.values()):
                claims.append(Fail('norm-of-ideal-element', f'norm() of the ideal bivector {dict(zip(g2, vals))} is {coeffs(n)}, expected 0', 'norm|concrete|zero-normsq'))
        except Exception as e:  # noqa
            claims.append(Fail('norm-of-ideal-element:raises', f'norm() of a dense bivector whose squared norm is 0 (only ideal coefficients are non-zero) raises {type(e).__name__}: {e}',
                               'norm|concrete|zero-normsq|raises'))
    claims.append(Eq('reached', 1, 1))
    return claims


def _run_exp_concrete(desc, V):
    """exp against cosh/sinh/1/cos/sin closed forms on CONCRETE values (sampling, stated as such): sympy coefficients whose
    sign sympy can decide (positive symbols, exact numbers) and numpy scalar types that are not Python floats."""
    import cmath, math, sympy
    alg = get_alg(desc['cfg'])
    km = kmap(alg)
    k = desc['ka'][0]
    sq = km.from_ref(km.ref.gp(km.to_ref({k: 1}), km.to_ref({k: 1}))).get(0, 0)        # square of the unit blade: +1, 0, -1
    claims = [Note('nontrivial', '')]

    def near(label, got, want, fkey):
        # concrete floating-point comparison (these sub-checks are sampling on concrete values, not solver claims)
        from ..core import concrete_equal
        if concrete_equal(got, want, tol=1e-7):
            return Eq(label, 1, 1)
        return Fail(label, f'{label}: got {got!r}, closed form {want!r}', fkey)

    def closed(t):
        ll = sq * t * t
        if ll > 0:
            l = math.sqrt(ll); return math.cosh(l), math.sinh(l) / l * t
        if ll == 0:
            return 1.0, t
        l = math.sqrt(-ll); return math.cos(l), math.sin(l) / l * t
    if desc['kind'] == 'exp-sympy-assumptions':
        for tag, coef, val in (('positive-symbol', sympy.Symbol('t', positive=True), 0.7), ('rational', sympy.Rational(3, 4), None), ('integer', sympy.Integer(2), None),
                               ('negative-symbol', sympy.Symbol('t', negative=True), -0.6), ('plain-symbol', sympy.Symbol('t'), 0.5)):
            x = alg.multivector(keys=(k,), values=[coef])
            r = x.exp()
            tval = float(coef) if val is None else val
            c0, c1 = closed(tval)
            got = coeffs(r)
            def num(e):
                e = sympy.sympify(e)
                e = e.subs({s_: tval for s_ in e.free_symbols})
                z = complex(sympy.N(e))
                return z.real if abs(z.imag) < 1e-9 else z
            claims.append(near(f'exp-{tag}[0]', num(got.get(0, 0)), c0, f'exp|sympy-assumptions|{tag}'))
            claims.append(near(f'exp-{tag}[{k}]', num(got.get(k, 0)), c1, f'exp|sympy-assumptions|{tag}'))
            for kk, v in got.items():
                if kk not in (0, k):
                    claims.append(near(f'exp-{tag}-other[{kk}]', num(v), 0.0, f'exp|sympy-assumptions|{tag}'))
        return claims
    if desc['kind'] == 'exp-ndarray':
        sign = 'positive' if sq > 0 else ('zero' if sq == 0 else 'negative')
        for tag, arr in (('size-1', np.array([0.5])), ('size-3', np.array([0.5, 1.5, 2.0])), ('0-d', np.array(0.5))):
            x = alg.multivector(keys=(k,), values=[arr])
            fkey = f'exp|ndarray|{tag}|{sign}-square'
            try:
                r = x.exp()
            except Exception as e:  # noqa
                claims.append(Fail(f'exp-ndarray-{tag}:raises', f'exp() of a {sign}-square element with an ndarray coefficient of {tag} raised {type(e).__name__}: {e}', fkey=fkey + '|raises'))
                continue
            got = coeffs(r)
            for i, tv in enumerate(np.atleast_1d(arr)):
                c0, c1 = closed(float(tv))
                g0 = np.broadcast_to(np.asarray(got.get(0, 0)), np.atleast_1d(arr).shape)[i]
                g1 = np.broadcast_to(np.asarray(got.get(k, 0)), np.atleast_1d(arr).shape)[i]
                claims.append(near(f'exp-ndarray-{tag}[0,{i}]', complex(g0), c0, fkey))
                claims.append(near(f'exp-ndarray-{tag}[{k},{i}]', complex(g1), c1, fkey))
        return claims
    for tag, mk in (('float64', np.float64), ('float32', np.float32), ('int64', np.int64), ('int', int), ('fraction', Fraction)):
        tval = 2 if tag in ('int64', 'int') else 0.5
        x = alg.multivector(keys=(k,), values=[mk(tval) if tag != 'fraction' else Fraction(1, 2)])
        try:
            r = x.exp()
        except Exception as e:  # noqa
            claims.append(Fail(f'exp-{tag}:raises', f'exp() with {tag} coefficients raised {type(e).__name__}: {e}', fkey=f'exp|numpy-scalar|{tag}|raises'))
            continue
        c0, c1 = closed(float(tval))
        got = coeffs(r)
        claims.append(near(f'exp-{tag}[0]', complex(got.get(0, 0)), c0, f'exp|numpy-scalar|{tag}'))
        claims.append(near(f'exp-{tag}[{k}]', complex(got.get(k, 0)), c1, f'exp|numpy-scalar|{tag}'))
    return claims


# --------------------------------------------------------------------------- exp skeleton

class _PatchNumpy:
    """replace numpy's cosh/sinh/cos/sinc by uninterpreted functions on proxies (harness scope)."""
    NAMES = ('cosh', 'sinh', 'cos', 'sinc')

    def __enter__(self):
        self.saved = {n: getattr(np, n) for n in self.NAMES}
        for n in self.NAMES:
            setattr(np, n, self._make(n, self.saved[n]))
        return self

    @staticmethod
    def _make(name, orig):
        def f(x, *a, **k):
            if isinstance(x, sym._SVOps):
                return x.__class__(sy2z3.uf(name)(x.t))
            return orig(x, *a, **k)
        return f

    def __exit__(self, *exc):
        for n, f in self.saved.items():
            setattr(np, n, f)
        return False


def _uf(name, x):
    if isinstance(x, sym._SVOps):
        return x.__class__(sy2z3.uf(name)(x.t))
    import math
    xf = float(x)
    return {'cosh': math.cosh, 'sinh': math.sinh, 'cos': math.cos, 'sinc': lambda v: float(np.sinc(v))}[name](xf)


def _run_exp(desc, V):
    from kingdon.multivector import MultiVector
    alg = get_alg(desc['cfg'])
    km = kmap(alg)
    keys = desc['ka']
    if desc['kind'] == 'exp-sympy':
        import sympy
        x = alg.multivector(name='t', keys=tuple(keys))
        env = {str(s): V.var(str(s)) for s in x.values()}
        r = x.exp()
        xs = {k: env[str(s)] for k, s in zip(x.keys(), x.values())}
        sq = km.from_ref(km.ref.gp(km.to_ref(xs), km.to_ref(xs)))
        ll = sq.get(0, 0)
        got = {k: sy2z3.to_value(v, env) for k, v in coeffs(r).items()}
        if isinstance(ll, int) and ll == 0:
            want = _acc({0: 1}, xs)
        else:
            l = (-ll) ** 0.5
            want = _acc({0: _uf('cos', l)}, _scale(xs, _uf('sinc', l)))
        return eq_claims('exp-symbolic', got, want, fkey='exp|symbolic-branch')
    # numeric branches with float-subclass proxies
    if V.symbolic:
        vals = [SVf(V.var(f'x_{k}').t) for k in keys]
    else:
        vals = [float(V.var(f'x_{k}')) for k in keys]
    x = MultiVector.fromkeysvalues(alg, tuple(keys), vals)
    xs = dict(zip(keys, vals))
    sq = km.from_ref(km.ref.gp(km.to_ref(xs), km.to_ref(xs)))
    nonscalar = {k: v for k, v in sq.items() if k != 0}
    with _PatchNumpy():
        try:
            r = x.exp()
        except NotImplementedError:
            # legitimate only if some non-scalar part of x*x is non-zero on this path
            lits = [sym.term(v) != 0 for v in nonscalar.values() if not (isinstance(v, int) and v == 0)]
            if not V.symbolic:
                ok = any((v != 0) for v in nonscalar.values())
                return [Eq('not-simple', 1, 1)] if ok else [Fail('exp:raises', 'NotImplementedError for an element that squares to a scalar', fkey='exp|raises-for-simple')]
            if not lits:
                return [Fail('exp:raises', 'NotImplementedError for an element that squares to a scalar', fkey='exp|raises-for-simple')]
            # on this path x*x is claimed non-scalar: then one of the non-scalar parts must be non-zero
            return [Eq('not-simple', 1, 1), Note('nontrivial', '')]
        ll = sq.get(0, 0)
        # on a path where exp returned, x*x must be scalar: every non-scalar part is zero
        claims = [Eq(f'square-is-scalar[{k}]', v, 0, fkey='exp|accepted-non-simple') for k, v in nonscalar.items()]
        if isinstance(ll, (int, Fraction)) and not isinstance(ll, float) and ll == 0:
            want = _acc({0: 1}, xs)
            branch = 'null'
        elif ll > 0:
            l = ll ** 0.5
            want = _acc({0: _uf('cosh', l)}, _scale(xs, _uf('sinh', l) / l))
            branch = 'hyperbolic'
        elif ll == 0:
            want = _acc({0: 1}, xs)
            branch = 'null'
        else:
            l = (-ll) ** 0.5
            want = _acc({0: _uf('cos', l)}, _scale(xs, _uf('sinc', l / np.pi)))
            branch = 'circular'
    claims += mv_eq_claims(f'exp', r, want, fkey=f'exp|numeric|{branch}')
    return claims
