"""
C02 -- geometric product of sparse multivectors equals the bilinear extension.

Engine A: for each enumerated (algebra configuration, ordered key pattern of a, ordered key
pattern of b, call route) the real public call (a*b, alg.gp(a, b), alg.gp[ka, kb]) is
executed on solver-term coefficients; this generates, compiles, caches and runs kingdon's
real function for that pattern pair.  One z3 query per case decides, for ALL coefficient
values at once, that every returned coefficient equals  sum sign(I,J)*a_I*b_J  with the
sign taken from the algebra's own blade table (the property's wording), that it equals the
independent reference product, and that every blade absent from the result has an
identically-zero specification.  sat models are replayed on exact rationals.
"""
from __future__ import annotations

import random

from ..core import Eq, Fail, Note
from .. import kapi, pat, trigring, coexist
from ..kapi import get_alg, mv, coeffs, mv_eq_claims, eq_claims, kmap

PROP = 'C02'
LEVEL = 'translation_validation'
FUNCTIONS = ['kingdon.codegen.codegen_gp', 'codegen_product', 'mathstr.__add__/__sub__/__neg__/__mul__',
             'do_codegen', 'lambdify', 'func_builder', 'KingdonPrinter.doprint', 'OperatorDict.__getitem__',
             'OperatorDict._call_binary', 'OperatorDict.__call__', 'MultiVector.fromkeysvalues',
             'the generated functions gp_<A>_x_<B> themselves (run on solver terms)']
ASSUMPTIONS = [
    'coefficients are modelled as real numbers (z3 Real); an unsat polynomial identity holds in every commutative ring',
    'key patterns and algebra configurations are enumerated (bound), coefficient values are symbolic',
    'key tuples with a repeated blade are outside the claim',
]
BOUNDS = {
    'quick': 'd<=2: all ordered key patterns x all ordered key patterns (65x65) for every (p,q,r) and mixed explicit orderings; '
             'd=3: sampled subset pairs, all grade-union pairs, all single-blade pairs; d=4,5: grade unions, dense, random sparse; '
             'd=7 (lazy sign table): random sparse; option variants cse=False, graded=True, wrapper=identity on slices; configuration fuzz; '
             'twin algebras coexisting in one process (kv/coexist.py); 30 trig-ring cases (sympy coefficients in cos t, sin t)',
    'thorough': 'as quick plus d=3 all 256x256 canonical subsets for all ten (p,q,r), d=4 20k random pairs, d=5 2k random + dense, d=7,8 random sparse',
}
OUTSIDE = ['d > 8', 'key tuples with a repeated blade', 'floating-point rounding', 'thread schedules']
EXHAUSTIVE = {'quick': False, 'thorough': False}
OPTS = {'rlimit': 80_000_000, 'canary_every': 25}


def _cfgs(d):
    return [dict(p=p, q=q, r=r) for p, q, r in pat.pqr_all(d)]


def cases(tier, seed):
    rng = random.Random(seed * 7919 + 2)
    out = []

    def add(cfg, ka, kb, route='mul'):
        out.append(dict(kind='gp', cfg=cfg, ka=list(ka), kb=list(kb), route=route))

    routes = ['mul', 'call', 'getitem']
    # d = 0, 1, 2: exhaustive ordered patterns
    for d in (0, 1, 2):
        E = pat.EXH(d)
        cfgs = _cfgs(d)
        if d == 2:
            cfgs += [dict(signature=[-1, 1]), dict(signature=[0, 1], start_index=1), dict(signature=[1, 0]),
                     dict(signature=[0, -1])]
        for cfg in cfgs:
            pairs = [(x, y) for x in E for y in E]
            if tier == 'quick' and d == 2 and cfg not in ({'p': 2, 'q': 0, 'r': 0}, {'p': 1, 'q': 1, 'r': 0}, {'p': 1, 'q': 0, 'r': 1}):
                pairs = rng.sample(pairs, 600)
            for i, (x, y) in enumerate(pairs):
                add(cfg, x, y, routes[i % 3])
    # d = 3
    S3 = pat.SUB(3)
    G3 = pat.GRD(3)
    O3 = pat.ONE(3)
    for cfg in _cfgs(3) + [dict(signature=[1, 0, -1]), dict(signature=[-1, 1, 1], start_index=0)]:
        if tier == 'thorough' and 'p' in cfg:
            pairs = [(x, y) for x in S3 for y in S3]
        else:
            pairs = [(rng.choice(S3), rng.choice(S3)) for _ in range(300)]
            pairs += [(x, y) for x in G3 for y in G3]
            pairs += [(x, y) for x in O3 for y in O3]
            pairs += [(x, y) for x in pat.RND(3, 12, rng) for y in pat.RND(3, 6, rng)]
        for i, (x, y) in enumerate(pairs):
            add(cfg, x, y, routes[i % 3])
    # d = 4, 5
    for d, cfgs in ((4, [dict(p=4), dict(p=3, r=1), dict(p=1, q=3), dict(p=2, q=1, r=1), dict(signature=[1, -1, 0, 1])]),
                    (5, [dict(p=4, q=1), dict(p=3, q=1, r=1), dict(p=5)])):
        G = pat.GRD(d, max_grades=2)
        F = pat.FULL(d)
        nr = (40 if d == 4 else 14) if tier == 'quick' else (20000 // 5 if d == 4 else 700)
        for cfg in cfgs:
            pairs = [(rng.choice(G), rng.choice(G)) for _ in range(30 if tier == 'quick' else 200)]
            pairs += [(F[0], F[1]), (F[1], F[0])] if (d == 4 or tier == 'thorough' or cfg == cfgs[0]) else []
            R = pat.RND(d, nr, rng, max_len=10)
            pairs += [(R[i], R[-1 - i]) for i in range(len(R))]
            pairs += [((k,), (rng.randrange(2 ** d),)) for k in range(2 ** d)]
            for i, (x, y) in enumerate(pairs):
                add(cfg, x, y, routes[i % 3])
    # d = 7, 8 : lazily filled sign table
    for d, cfgs in ((7, [dict(p=4, q=2, r=1), dict(p=7), dict(p=4, q=1, r=2), dict(signature=[1, -1, 1, 0, 1, 1, -1]), dict(signature=[0, 1, 1, -1, 1, 0, 1], start_index=1)]),
                    (8, [dict(p=5, q=2, r=1), dict(signature=[1, 1, 1, 0, 1, 1, 1, -1])])):
        if d == 8 and tier == 'quick':
            cfgs = cfgs[:1]
        n = 15 if tier == 'quick' else 100
        for cfg in cfgs:
            R = pat.RND(d, 2 * n, rng, max_len=8, order=list(range(2 ** d)))
            for i in range(n):
                add(cfg, R[2 * i], R[2 * i + 1], routes[i % 3])
    for cfg in (dict(p=2, start_index=10), dict(p=2, r=1, start_index=11), dict(p=4, start_index=12)):
        dd = sum(v for k, v in cfg.items() if k in 'pqr')
        P = pat.EXH(2) if dd == 2 else pat.RND(dd, 60, rng, max_len=5)
        for i in range(80 if tier == 'quick' else 400):
            add(cfg, rng.choice(P), rng.choice(P), routes[i % 3])
    # option variants on slices (argument unpacking is generated by different code on each route)
    for opt in (dict(cse=False), dict(graded=True), dict(wrapper='identity'), dict(cse=False, wrapper='wraps')):
        for d in (2, 3):
            for base in (_cfgs(d)[0], _cfgs(d)[-2], _cfgs(d)[1]):
                cfg = dict(base, **opt)
                if opt.get('graded'):
                    P = pat.GRD(d)
                    pairs = [(x, y) for x in P for y in P] if d == 2 else [(rng.choice(P), rng.choice(P)) for _ in range(40)]
                else:
                    P = pat.EXH(2) if d == 2 else pat.RND(3, 40, rng)
                    pairs = [(rng.choice(P), rng.choice(P)) for _ in range(150 if d == 2 else 60)]
                for i, (x, y) in enumerate(pairs):
                    add(cfg, x, y, routes[i % 3])
    # configuration fuzz: every construction axis at once (signature order, start index, custom basis, options, derivation)
    for i in range(250 if tier == 'quick' else 2500):
        cfg, dd = pat.random_cfg(rng)
        add(cfg, pat.random_pattern(rng, dd), pat.random_pattern(rng, dd), routes[i % 3])
    # algebras DERIVED from another one with dataclasses.replace: the product must follow the derived algebra's own table
    for cfg in (dict(p=2, derive=dict(signature=[1, -1])), dict(p=3, derive=dict(signature=[1, 1, 0])), dict(p=2, derive=dict(cse=False)),
                dict(p=1, q=1, derive=dict(signature=[-1, 1])), dict(p=3, derive=dict(signature=[-1, 1, 0], start_index=1))):
        d = cfg.get('p', 0) + cfg.get('q', 0)
        P = pat.EXH(2) if d == 2 else pat.RND(3, 40, rng)
        for i in range(60 if tier == 'quick' else 400):
            add(cfg, rng.choice(P), rng.choice(P), routes[i % 3])
    # algebras that coexist in one process and share blade NAMES but not the binary numbering / metric (kv/coexist.py)
    out += coexist.cases(tier, seed, 302, n_quick=40, n_thorough=300)
    # coefficients of a commutative ring other than numbers: sympy expressions in cos t, sin t (one product a*b each)
    out += trigring.cases(tier, seed, binary_only=True, n_quick=30, n_thorough=300)
    return out


def run_case(desc, V):
    if desc['kind'] == 'trig-ring':
        return trigring.run(desc, V)
    if desc['kind'] == 'coexist':
        return coexist.run(desc, V, binary=('gp', 'op'))
    # with a wrapper the numeric path calls through the shared name space: keep such cases
    # self-contained (history effects are C09's subject)
    alg = get_alg(desc['cfg'], fresh=bool(desc['cfg'].get('wrapper')))
    if desc['cfg'].get('derive') and 'signature' in desc['cfg']['derive'] and [int(x) for x in alg.signature] != list(desc['cfg']['derive']['signature']):
        return [Fail('derived-signature', f'derived algebra has signature {list(alg.signature)}')]
    a = mv(alg, V, 'a', desc['ka'])
    b = mv(alg, V, 'b', desc['kb'])
    route = desc.get('route', 'mul')
    claims = []
    if route == 'mul':
        res = a * b
    elif route == 'call':
        res = alg.gp(a, b)
    else:
        keys_out, func = alg.gp[tuple(a.keys()), tuple(b.keys())]
        vals = func(a.values(), b.values())
        if len(vals) != len(keys_out):
            return [Fail('getitem:len', f'keys_out has {len(keys_out)} entries, function returned {len(vals)}')]
        from kingdon.multivector import MultiVector
        res = MultiVector.fromkeysvalues(alg, tuple(keys_out), list(vals))
    # oracle 1: bilinear extension with kingdon's own blade table
    spec = {}
    for ka, va in zip(a.keys(), a.values()):
        for kb, vb in zip(b.keys(), b.values()):
            s = alg.signs[ka, kb]
            if s:
                t = va * vb
                t = t if s == 1 else (-t if s == -1 else t * s)
                k = ka ^ kb
                spec[k] = spec[k] + t if k in spec else t
    claims += mv_eq_claims('gp', res, spec)
    # oracle 2: independent reference algebra
    km = kmap(alg)
    spec2 = km.from_ref(km.ref.gp(km.to_ref(zip(a.keys(), a.values())), km.to_ref(zip(b.keys(), b.values()))))
    claims += eq_claims('gp-ref', coeffs(res), spec2)
    return claims
