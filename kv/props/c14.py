"""
C14 -- custom bases and start indices are a pure relabelling.

phi maps a multivector of a custom-basis algebra to the default-basis algebra of the same
signature (by generator NAME) : coefficient on the blade spelled e_w  |->  parity(w) * coefficient
on the blade with the sorted spelling.  parity and sorting are computed by the reference
(kv.ref), not by kingdon's _blade2canon.  For symbolic x, y and every operator ONE query per
case proves  phi(op'(x, y)) = op(phi x, phi y)  for all coefficient values, both sides computed
by kingdon (custom algebra vs default algebra).  Duals and the regressive product are defined
by the algebra's own pseudoscalar, so the relation is taken relative to it:
phi(hodge' x) = s*hodge(phi x) with phi(pss') = s*pss (s = +1 for the three named algebras);
likewise unhodge, polarity, unpolarity and a & b carry one factor s.  grade() and coefficient
access by any spelling commute exactly.  Named constructors 2DPGA, 3DPGA, STAP are instances.
Rejection clause (concrete): for pairs of algebras whose metric or basis differ, x_A op y_B must
raise through the binary, the n-ary and the registered-function call paths.  Pairs differing
only in start index are not required to be rejected (the pinned suite treats them as equal).
"""
from __future__ import annotations

import itertools
import random

from ..core import Eq, Fail, Note
from .. import pat, ops, sym
from ..kapi import get_alg, make_alg, mv, coeffs, mv_eq_claims, eq_claims, kmap
from ..ref import popcount

PROP = 'C14'
LEVEL = 'translation_validation'
ENGINES = ['A']
FUNCTIONS = ['Algebra.__post_init__ (custom basis mapping)', 'Algebra.fromname', 'Algebra._blade2canon', '_swap_blades', 'Algebra._prepare_signs',
             'MultiVector.__getattr__', 'MultiVector.__new__ (keyword blades)', 'codegen_hodge/unhodge/polarity/unpolarity/rp (pss, complement signs)',
             'Algebra.__eq__ (dataclass equality) used by OperatorDict._call_binary/__call__/Registry.__call__', 'every codegen_* operator in a custom basis']
ASSUMPTIONS = ['coefficients are reals; denominators non-zero', 'duals are compared relative to the algebra\'s own pseudoscalar (orientation factor s)',
               'algebras that differ only in start index are not required to be rejected']
BOUNDS = {'quick': 'custom bases exhaustive d<=2 (14 sampled), 24 sampled d=3,4, named algebras, shifted start index; 27 operators on random sparse patterns; matrix representation d<=3; rejection: 14 algebra pairs x 3 call paths; rejection over 5 x 5 operand key patterns (scalar, empty, pseudoscalar, mixed) and 7 infix operators',
          'thorough': '900 sampled bases d=3,4, 40 at d=5'}
OUTSIDE = ['matrix representation in custom bases (C18)', 'generator names beyond single hex digits']
OPTS = {'rlimit': 300_000_000, 'canary_every': 12}

BIN = ['gp', 'op', 'ip', 'lc', 'rc', 'sp', 'cp', 'acp', 'rp', 'add', 'sub', 'sw', 'proj', 'div']
UN = ['neg', 'reverse', 'involute', 'conjugate', 'hodge', 'unhodge', 'polarity', 'unpolarity', 'normsq', 'inv',
      'outerexp', 'outersin', 'outercos']
SIGMA_OPS = {'hodge', 'unhodge', 'polarity', 'unpolarity', 'rp'}


def _default_cfg(cfg):
    if cfg.get('name'):
        return {'2DPGA': dict(p=2, r=1), '3DPGA': dict(p=3, r=1), 'STAP': dict(p=3, q=1, r=1)}[cfg['name']]
    out = {k: v for k, v in cfg.items() if k != 'basis'}
    return out


def cases(tier, seed):
    rng = random.Random(seed * 7919 + 14)
    out = []
    cfgs = []
    for d in (1, 2):
        for pqr in pat.pqr_all(d):
            for basis in pat.all_bases(pqr):
                cfgs.append(dict(p=pqr[0], q=pqr[1], r=pqr[2], basis=basis))
    if tier == 'quick':
        cfgs = rng.sample(cfgs, 14)
    for _ in range(24 if tier == 'quick' else 900):
        d = rng.choice((3, 3, 4))
        pqr = rng.choice(pat.pqr_all(d))
        cfgs.append(dict(p=pqr[0], q=pqr[1], r=pqr[2], basis=pat.random_basis(pqr, rng)))
    if tier == 'thorough':
        for _ in range(40):
            pqr = rng.choice(pat.pqr_all(5))
            cfgs.append(dict(p=pqr[0], q=pqr[1], r=pqr[2], basis=pat.random_basis(pqr, rng)))
    cfgs += [dict(name='2DPGA'), dict(name='3DPGA'), dict(name='STAP')]
    # start index variants of a custom basis
    cfgs.append(dict(p=2, q=1, basis=['e', 'e4', 'e3', 'e5', 'e53', 'e34', 'e45', 'e354']))
    for cfg in cfgs:
        d = {'2DPGA': 3, '3DPGA': 4, 'STAP': 5}.get(cfg.get('name')) or (cfg['p'] + cfg['q'] + cfg['r'] if 'r' in cfg else cfg['p'] + cfg.get('q', 0))
        nondeg = not cfg.get('r') and not cfg.get('name')
        P = pat.RND(d, 40, rng, max_len=5 if d <= 3 else 4, min_len=1, order=list(range(2 ** d)))
        out.append(dict(kind='access', cfg=cfg, ka=list(range(2 ** d)) if d <= 4 else list(P[0])))
        if d <= 3:
            out.append(dict(kind='matrix', cfg=cfg))
        for op in BIN:
            ka, kb = rng.choice(P), rng.choice(P)
            if op in ('sw', 'proj', 'div') and d >= 4:
                ka, kb = ka[:3], kb[:3]
            out.append(dict(kind='binary', cfg=cfg, op=op, ka=list(ka), kb=list(kb)))
        for op in UN:
            if op in ('polarity', 'unpolarity') and not nondeg:
                continue
            ka = rng.choice(P)
            if op == 'inv' and d >= 4:
                ka = ka[:3]
            out.append(dict(kind='unary', cfg=cfg, op=op, ka=list(ka)))
    out += _reject_cases()
    return out


def _reject_cases():
    A = [
        (dict(p=2), dict(p=1, q=1), True),
        (dict(p=2), dict(p=3), True),
        (dict(p=1, r=1), dict(p=1, q=1), True),
        (dict(signature=[1, -1]), dict(signature=[-1, 1]), True),
        (dict(signature=[0, 1, 1]), dict(signature=[1, 1, 0], start_index=0), True),
        (dict(signature=[1, -1, 1], start_index=1), dict(signature=[1, 1, -1], start_index=1), True),
        (dict(p=2, r=1), dict(name='2DPGA'), True),
        (dict(name='3DPGA'), dict(p=3, r=1), True),
        (dict(p=2, basis=['e', 'e2', 'e1', 'e12']), dict(p=2), True),
        (dict(p=2, basis=['e', 'e1', 'e2', 'e21']), dict(p=2), True),
        (dict(p=2, basis=['e', 'e1', 'e2', 'e21']), dict(p=2, basis=['e', 'e2', 'e1', 'e12']), True),
        (dict(p=3, basis=['e', 'e1', 'e2', 'e3', 'e12', 'e31', 'e23', 'e123']), dict(p=3), True),
        # start index only: NOT demanded.  The pinned suite itself (test_start_index) compares elements of Algebra(signature=[0,1,1],
        # start_index=0) and ...start_index=1 and expects them equal: the start index relabels the generators by position and is not
        # part of an algebra's identity (a round-6 report asked for rejection; trying it made that test fail)
        (dict(p=2, start_index=0), dict(p=2, start_index=1), None),
        (dict(p=2, start_index=3), dict(p=2, start_index=3), False),
        (dict(p=2, cse=False), dict(p=2), None),                          # options: may raise or not
    ]
    out = []
    for i, (c1, c2, must) in enumerate(A):
        for path in ('binary', 'nary', 'registry'):
            out.append(dict(kind='reject', cfg1=c1, cfg2=c2, must=must, path=path))
            out.append(dict(kind='reject', cfg1=c2, cfg2=c1, must=must, path=path))
    return out


def _phi(km_c, km_0, items):
    return km_0.from_ref(km_c.to_ref(items))


def run_case(desc, V):
    if desc['kind'] == 'reject':
        return _run_reject(desc, V)
    if desc['kind'] == 'matrix':
        # the matrix representation in the custom basis: homomorphism, first column, frommatrix (C18's relation)
        from . import c18
        return c18.run_case(dict(kind='hom', cfg=desc['cfg'], custom=True), V)
    from kingdon.multivector import MultiVector
    C = get_alg(desc['cfg'])
    D = get_alg(dict(_default_cfg(desc['cfg']), start_index=C.start_index))
    kc, k0 = kmap(C), kmap(D)
    if list(kc.ref.sig) != list(k0.ref.sig) or kc.start_index != k0.start_index:
        return [Fail('setup', f'default-basis algebra has another signature-by-name {k0.ref.sig}/{k0.start_index} than the custom one {kc.ref.sig}/{kc.start_index}')]
    sigma = kc.sigma * k0.sigma
    a = mv(C, V, 'a', desc['ka'])

    def to_default(x):
        d = _phi(kc, k0, zip(x.keys(), x.values()))
        return MultiVector.fromkeysvalues(D, tuple(d.keys()), list(d.values()))

    a0 = to_default(a)
    claims = []
    kind = desc['kind']
    if kind == 'access':
        # coefficient access by every spelling commutes exactly; grade() commutes
        for key, name in C.bin2canon.items():
            w = name[1:]
            perms = itertools.permutations(w) if len(w) <= 3 else [tuple(w), tuple(reversed(w)), tuple(w[1:] + w[:1])]
            for pm in perms:
                sp = 'e' + ''.join(pm)
                claims.append(Eq(f'getattr[{sp}]', getattr(a, sp), getattr(a0, sp)))
        for g in range(C.d + 1):
            claims += eq_claims(f'grade[{g}]', _phi(kc, k0, coeffs(a.grade(g))), coeffs(a0.grade(g)))
        pc = _phi(kc, k0, coeffs(C.pss))
        claims += eq_claims('phi(pss)=s*pss', pc, {k: v * sigma for k, v in coeffs(D.pss).items()})
        for key, name in C.bin2canon.items():
            claims += eq_claims(f'blade[{name}]', _phi(kc, k0, coeffs(C.blades[name])), coeffs(D.blades[name]))
        return claims
    op = desc['op']
    s = sigma if op in SIGMA_OPS else 1
    if kind == 'binary':
        b = mv(C, V, 'b', desc['kb'])
        b0 = to_default(b)
        call_c = lambda: ops.call_binary(op, a, b, 'method')
        call_0 = lambda: ops.call_binary(op, a0, b0, 'method')
    else:
        call_c = lambda: ops.call_unary(op, a, 'method')
        call_0 = lambda: ops.call_unary(op, a0, 'method')
    try:
        r0 = call_0()
    except ZeroDivisionError:
        r0 = None
    try:
        rc = call_c()
    except ZeroDivisionError:
        rc = None
    if (r0 is None) != (rc is None):
        return [Fail(f'{op}:zde-mismatch', f'custom basis {"raised" if rc is None else "returned"}, default basis {"raised" if r0 is None else "returned"} ZeroDivisionError',
                     fkey=f'{kind}|{op}|zerodivision-mismatch')]
    if r0 is None:
        return [Eq('both-raise', 1, 1)]
    want = {k: (v * s if s != 1 else v) for k, v in coeffs(r0).items()}
    claims += eq_claims(f'phi({op})', _phi(kc, k0, coeffs(rc)), want, fkey=f'{kind}|{op}|relabelling')
    return claims


def _run_reject(desc, V):
    import operator as _op
    A, B = make_alg(desc['cfg1']), make_alg(desc['cfg2'])
    path = desc['path']

    def pats(alg):
        top = 2 ** alg.d - 1
        return [(1,), (0,), (0, 1), (top,), ()] if alg.d else [(0,), ()]
    claims = []
    # every pairing of operand key patterns (a pure scalar, the empty multivector and the pseudoscalar included): the owner of
    # an operand is its algebra, whatever blades it stores
    for ka in pats(A):
        for kb in pats(B):
            x = A.multivector(keys=ka, values=[2 + i for i in range(len(ka))])
            y = B.multivector(keys=kb, values=[3 + i for i in range(len(kb))])
            calls = []
            if path == 'binary':
                calls = [('*', lambda: x * y), ('^', lambda: x ^ y), ('|', lambda: x | y), ('+', lambda: x + y), ('-', lambda: x - y), ('>>', lambda: x >> y), ('&', lambda: x & y)]
                if (ka, kb) != ((1,), (1,)) and A.d:
                    calls = calls[:4]
            elif path == 'nary':
                # the n-ary call path of OperatorDict.__call__ (three operands)
                calls = [('add3', lambda: A.add(x, y, x))]
            else:
                ns = {}
                exec('def reg_mix(u, v):\n    return u * v\n', ns)
                calls = [('registered', lambda: A.register(ns['reg_mix'])(x, y))]
            for name, call in calls:
                raised = None
                try:
                    call()
                except Exception as e:  # noqa
                    raised = type(e).__name__
                if desc['must'] and raised is None:
                    what = 'signature-order' if 'signature' in desc['cfg1'] and 'signature' in desc['cfg2'] else 'other'
                    if (ka, kb) != ((1,), (1,)) and A.d:
                        what += '|scalar-empty-or-pseudoscalar-operand'
                    claims.append(Fail(f'not-rejected:{path}:{name}:{ka}/{kb}', f'operands of {desc["cfg1"]} (keys {ka}) and {desc["cfg2"]} (keys {kb}) were combined by {name} without an error ({path} call path)',
                                       fkey=f'reject|not-rejected|{what}'))
    claims.append(Eq('reached', 1, 1))
    return claims
