"""
C03 -- outer, inner, contraction, scalar and (anti)commutator products match their definitions.

Engine A: for each enumerated (configuration, ordered key pattern pair) the seven operators
are run through the public surface on solver-term coefficients; one z3 query per case decides
for all coefficient values that each result equals (i) the reference-model product with the
defining grade filter, (ii) on a slice of the cases, the property's own wording
 sum_{r,s} <a_r b_s>_{g(r,s)}  computed with kingdon's gp and grade() on the same operands,
(iii) cp = (ab-ba)/2, acp = (ab+ba)/2 with kingdon's gp, and the derived identities
ip+sp = lc+rc, cp+acp = gp.  Blades a result does not store must be identically zero.
Engine B: the real filter closures of codegen_op/ip/lc/rc/sp, captured from kingdon, are
called on bit-vector blade indices and proved equivalent to their grade definition for ALL
pairs of blade indices below 2^W in one query each.
"""
from __future__ import annotations

import random
from fractions import Fraction

import z3

from ..core import Eq, Fail, Note
from .. import pat, ops, bv
from .. import coexist
from ..kapi import get_alg, mv, coeffs, mv_eq_claims, eq_claims, kmap, twice_on_wrapper

PROP = 'C03'
LEVEL = 'translation_validation'
ENGINES = ['A', 'B']
FUNCTIONS = ['codegen_op', 'codegen_ip', 'codegen_lc', 'codegen_rc', 'codegen_sp', 'codegen_cp', 'codegen_acp',
             'codegen_product', 'mathstr', 'do_codegen', 'lambdify/func_builder', 'OperatorDict._call_binary',
             'filter_func/keyout_func closures (bit-vector execution)', 'generated functions op_/ip_/lc_/rc_/sp_/cp_/acp_<A>_x_<B>']
ASSUMPTIONS = ['coefficients are reals (polynomial identities => any commutative ring containing 1/2 for cp/acp)',
               'patterns/configurations enumerated; coefficient values symbolic; blade indices symbolic up to width W in Engine B']
BOUNDS = {'quick': 'd<=2 all ordered pattern pairs (sampled per signature beyond three base signatures), d=3 sampled subsets + grade unions + single blades, d=4,5 grade unions/random sparse, d=7 on fresh algebras (lazy table, cp/acp first); d=9,10 sparse operands with blade masks >= 256; wrapper slices with a second pass; custom bases and explicit orderings sampled; Engine B width W=10; twin algebras coexisting in one process',
          'thorough': 'd<=2 complete, d=3 5k subset pairs per signature, d=4 all (p,q,r) random sparse, Engine B width W=16'}
OUTSIDE = ['d > 5 for Engine A', 'blade indices >= 2^W for Engine B', 'floating-point rounding']
OPTS = {'rlimit': 80_000_000, 'canary_every': 20}
SPECIAL_KINDS = ('bv',)

NAMES = ['cp', 'acp', 'op', 'ip', 'lc', 'rc', 'sp']
GRADE_RULE = {
    'op': lambda r, s: r + s,
    'ip': lambda r, s: abs(r - s),
    'lc': lambda r, s: s - r,
    'rc': lambda r, s: r - s,
    'sp': lambda r, s: 0,
}


def cases(tier, seed):
    rng = random.Random(seed * 7919 + 3)
    out = []

    def add(cfg, ka, kb, defn=False):
        out.append(dict(kind='products', cfg=cfg, ka=list(ka), kb=list(kb), defn=bool(defn)))

    for d in (1, 2):
        E = pat.EXH(d)
        cfgs = [dict(p=p, q=q, r=r) for p, q, r in pat.pqr_all(d)]
        if d == 2:
            cfgs += [dict(signature=[-1, 1]), dict(signature=[1, 0])]
        for ci, cfg in enumerate(cfgs):
            pairs = [(x, y) for x in E for y in E]
            if d == 2 and not (tier == 'thorough'):
                pairs = rng.sample(pairs, 700 if ci < 3 else 250)
            for i, (x, y) in enumerate(pairs):
                add(cfg, x, y, defn=(i % 6 == 0))
    S3, G3, O3 = pat.SUB(3), pat.GRD(3), pat.ONE(3)
    cfg3 = [dict(p=p, q=q, r=r) for p, q, r in pat.pqr_all(3)] + [dict(signature=[0, -1, 1]), dict(name='2DPGA')]
    for cfg in cfg3:
        n = 150 if tier == 'quick' else 5000
        pairs = [(rng.choice(S3), rng.choice(S3)) for _ in range(n)]
        pairs += [(x, y) for x in G3 for y in G3]
        pairs += [(x, y) for x in O3 for y in O3]
        R = pat.RND(3, 20, rng)
        pairs += [(R[i], R[-1 - i]) for i in range(len(R))]
        for i, (x, y) in enumerate(pairs):
            add(cfg, x, y, defn=(i % 12 == 0))
    cfg4 = [dict(p=3, r=1), dict(p=1, q=3), dict(p=2, q=1, r=1), dict(name='3DPGA')]
    if tier == 'thorough':
        cfg4 = [dict(p=p, q=q, r=r) for p, q, r in pat.pqr_all(4)] + [dict(name='3DPGA')]
    for cfg in cfg4:
        G = pat.GRD(4, max_grades=2)
        pairs = [(rng.choice(G), rng.choice(G)) for _ in range(25 if tier == 'quick' else 150)]
        R = pat.RND(4, 30 if tier == 'quick' else 400, rng, max_len=8)
        pairs += [(R[i], R[-1 - i]) for i in range(len(R))]
        for i, (x, y) in enumerate(pairs):
            add(cfg, x, y, defn=(i % 25 == 0))
    for cfg in [dict(p=4, q=1), dict(p=3, q=1, r=1)] + ([dict(name='STAP')] if tier == 'thorough' else []):
        R = pat.RND(5, 16 if tier == 'quick' else 200, rng, max_len=7)
        for i in range(len(R) // 2):
            add(cfg, R[2 * i], R[2 * i + 1])
    # d = 7, 8: lazily filled sign table -- a FRESH algebra per case (a shared one would be warmed up by earlier cases)
    for cfg in [dict(p=7), dict(p=4, q=2, r=1), dict(p=4, q=1, r=2), dict(signature=[1, -1, 1, 0, 1, 1, -1])] + ([dict(p=5, q=2, r=1)] if tier == 'thorough' else []):
        dd = len(cfg['signature']) if 'signature' in cfg else sum(cfg.values())
        R = pat.RND(dd, 12 if tier == 'quick' else 60, rng, max_len=5, min_len=1, order=list(range(2 ** dd)))
        for i in range(len(R) // 2):
            out.append(dict(kind='products', cfg=cfg, ka=list(R[2 * i]), kb=list(R[2 * i + 1]), defn=False, fresh=True))
        out.append(dict(kind='products', cfg=cfg, ka=[1, 6], kb=[6, 1, 24], defn=False, fresh=True))
    # d = 9, 10 (beyond the d <= 8 of the quantifier; kept because sparse operands cost nothing): blade masks >= 256, where
    # bit tricks on the masks have another byte to get wrong (seed C03m).  Fresh algebra per case.
    for cfg in (dict(p=9), dict(p=8, q=1, r=1)):
        dd = sum(cfg.values())
        top = 2 ** dd - 1
        out.append(dict(kind='products', cfg=cfg, ka=[1, 3, 256, 257, top], kb=[0, 2, 256, 258, top - 1], defn=False, fresh=True))
        out.append(dict(kind='products', cfg=cfg, ka=[256, 0x180, 0x155], kb=[257, 0x0ff, 0x100 | 0x0f], defn=False, fresh=True))
        R = pat.RND(dd, 4, random.Random(seed * 7919 + 909 + dd), max_len=4, min_len=1, order=list(range(2 ** dd)))   # own stream: later samples keep theirs
        for i in range(len(R) // 2):
            out.append(dict(kind='products', cfg=cfg, ka=list(R[2 * i]), kb=list(R[2 * i + 1]), defn=False, fresh=True))
    # wrapper slices: functions are resolved by name at call time (second pass after all are generated)
    for cfg in (dict(p=2, wrapper='identity'), dict(p=1, q=1, wrapper='wraps'), dict(p=2, r=1, wrapper='identity'), dict(p=3, wrapper='wraps')):
        dd = sum(v for k, v in cfg.items() if k in 'pqr')
        P = pat.EXH(2) if dd == 2 else pat.RND(3, 40, rng, max_len=5)
        for _ in range(40 if tier == 'quick' else 200):
            add(cfg, rng.choice(P), rng.choice(P))
    # configuration fuzz over all construction axes
    for i in range(120 if tier == 'quick' else 1200):
        cfg, dd = pat.random_cfg(rng)
        add(cfg, pat.random_pattern(rng, dd), pat.random_pattern(rng, dd), defn=(i % 10 == 0))
    # random custom bases
    for i in range(10 if tier == 'quick' else 80):
        d = rng.choice((2, 3, 3, 4))
        pqr = rng.choice(pat.pqr_all(d))
        basis = pat.random_basis(pqr, rng)
        cfg = dict(p=pqr[0], q=pqr[1], r=pqr[2], basis=basis)
        R = pat.RND(d, 8, rng, max_len=6)
        for j in range(4):
            add(cfg, R[2 * j], R[2 * j + 1], defn=(j == 0))
    # algebras coexisting in one process (shared blade names, different numbering / metric / options)
    out += coexist.cases(tier, seed, 303, n_quick=20)
    return out


def run_case(desc, V):
    if desc['kind'] == 'coexist':
        return coexist.run(desc, V, binary=('op', 'ip', 'lc', 'rc', 'sp', 'cp', 'acp'), unary=())
    if desc.get('fresh'):
        from ..kapi import make_alg
        return _body(desc, V, make_alg(desc['cfg']))
    return twice_on_wrapper(desc['cfg'], lambda alg: _body(desc, V, alg))


def _body(desc, V, alg):
    km = kmap(alg)
    a = mv(alg, V, 'a', desc['ka'])
    b = mv(alg, V, 'b', desc['kb'])
    A, B = coeffs(a), coeffs(b)
    claims = []
    res = {}
    for i, name in enumerate(NAMES):
        route = 'infix' if (len(desc['ka']) + i) % 2 == 0 else 'alg'
        r = ops.call_binary(name, a, b, route)
        res[name] = r
        claims += mv_eq_claims(name, r, ops.ref_binary(km, name, A, B))
    ab = coeffs(a * b)
    ba = coeffs(b * a)
    half = Fraction(1, 2)
    ks = sorted(set(ab) | set(ba))
    claims += eq_claims('cp=(ab-ba)/2', coeffs(res['cp']), {k: (ab.get(k, 0) - ba.get(k, 0)) * half for k in ks})
    claims += eq_claims('acp=(ab+ba)/2', coeffs(res['acp']), {k: (ab.get(k, 0) + ba.get(k, 0)) * half for k in ks})
    C = {n: coeffs(r) for n, r in res.items()}
    allk = sorted(set().union(*[set(c) for c in C.values()], ab))
    for k in allk:
        claims.append(Eq(f'ip+sp=lc+rc[{k}]', C['ip'].get(k, 0) + C['sp'].get(k, 0), C['lc'].get(k, 0) + C['rc'].get(k, 0)))
        claims.append(Eq(f'cp+acp=gp[{k}]', C['cp'].get(k, 0) + C['acp'].get(k, 0), ab.get(k, 0)))
    if desc.get('defn'):
        # the property's wording, with kingdon's own gp and grade(): sum_{r,s} <a_r b_s>_{g(r,s)}
        ga, gb = sorted(a.grades), sorted(b.grades)
        parts = {}
        for r_ in ga:
            for s_ in gb:
                parts[r_, s_] = a.grade(r_) * b.grade(s_)
        for name, rule in GRADE_RULE.items():
            want = {}
            for (r_, s_), prod in parts.items():
                g = rule(r_, s_)
                if g < 0 or g > alg.d:
                    continue
                for k, v in coeffs(prod.grade(g)).items():
                    want[k] = want[k] + v if k in want else v
            claims += eq_claims(f'{name}=sum-grade-parts', C[name], want)
    return claims


# --------------------------------------------------------------------------- Engine B

def _lemmas(W):
    import kingdon.codegen as cg
    from kingdon import Algebra
    alg = Algebra(2)
    WB = W + 3
    out = []
    for name, rule in (('op', 'r+s'), ('ip', '|r-s|'), ('lc', 's-r'), ('rc', 'r-s'), ('sp', '0')):
        fn = getattr(cg, f'codegen_{name}', None)
        rec = bv.capture_product_closures(fn, alg) if fn else None
        if not rec or rec.get('filter_func') is None:
            r = bv._new_result(dict(kind='bv-lemma', lemma=f'{name}-filter', W=W))
            r['notes'].append('observation point codegen_product/filter_func not available (refactored?); lemma skipped, Engine A still covers the operator')
            out.append(r)
            continue
        kx, cx = bv.blade_var('kx', W, WB)
        ky, cy = bv.blade_var('ky', W, WB)
        keyout = rec.get('keyout_func') or (lambda x, y: x ^ y)
        ko = keyout(kx, ky)
        f = rec['filter_func'](kx, ky, ko)
        fb = f.b if isinstance(f, bv.SBV) else z3.BoolVal(bool(f))
        r_, s_, g_ = kx.popcount().t, ky.popcount().t, (kx ^ ky).popcount().t
        spec = {'op': g_ == r_ + s_, 'ip': g_ == z3.If(r_ >= s_, r_ - s_, s_ - r_), 'lc': g_ == s_ - r_,
                'rc': g_ == r_ - s_, 'sp': g_ == 0}[name]
        keyspec = ko.t == (kx.t ^ ky.t)
        neg = z3.And(cx, cy, z3.Or(fb != spec, z3.Not(keyspec)))

        def replay(vals, name=name, rec=rec, keyout=keyout):
            x, y = vals['kx'], vals['ky']
            k = keyout(x, y)
            got = bool(rec['filter_func'](x, y, k))
            r, s, g = bin(x).count('1'), bin(y).count('1'), bin(x ^ y).count('1')
            want = {'op': g == r + s, 'ip': g == abs(r - s), 'lc': g == s - r, 'rc': g == r - s, 'sp': g == 0}[name]
            if got != want or k != x ^ y:
                return f'{name}: term e_{x} x e_{y} -> key {k}: filter keeps={got}, definition (grade {rule}) keeps={want}'
            return None

        out.append(bv.lemma(PROP, f'{name}-filter<=>grade {rule}', neg, {'kx': WB, 'ky': WB}, replay, extra=dict(W=W, op=name)))
    return out


def extra(tier, seed, jobs):
    return _lemmas(10 if tier == 'quick' else 16)


def replay_special(viol):
    W = viol['desc'].get('W', 10)
    for r in _lemmas(W):
        for v in r['violations']:
            if v['label'] == viol['label']:
                print(' ', v['detail'])
                return True
    return False
