"""
sympy -> solver terms: structural translation of the expressions kingdon returns on its
symbolic path.  The translation *evaluates* the sympy tree with proxy arithmetic (kv.sym.SV), so
divisions and half-integer powers get exactly the same treatment (shared reciprocal / root
variables, recorded side conditions) as on the numeric path it is compared with.

Supported: Add, Mul, Pow with integer or half-integer exponent, Integer, Rational, Float,
Symbol, and the functions cos / sinc / cosh / sinh (as uninterpreted functions).  Anything else
raises Untranslatable (the case is then inconclusive, never a pass).
"""
from __future__ import annotations

from fractions import Fraction

import sympy
import z3

from . import sym
from .sym import SV

UF = {}


class Untranslatable(Exception):
    pass


def uf(name):
    if name not in UF:
        UF[name] = z3.Function(f'uf_{name}', z3.RealSort(), z3.RealSort())
    return UF[name]


def to_value(e, env, concrete=False):
    """
    Evaluate sympy expression ``e`` with symbols bound by ``env`` (name -> SV | Fraction).
    Iterative post-order evaluation (expressions can be deep).
    """
    if not isinstance(e, sympy.Basic):
        return e
    memo = {}
    stack = [(e, False)]
    while stack:
        node, done = stack.pop()
        if node in memo:
            continue
        if not done:
            if node.is_Symbol:
                if node.name not in env:
                    raise Untranslatable(f'free symbol {node.name} not bound')
                memo[node] = env[node.name]
            elif node.is_Integer:
                memo[node] = int(node)
            elif node.is_Rational:
                memo[node] = Fraction(int(node.p), int(node.q))
            elif node.is_Float:
                memo[node] = sym.snap_float(float(node))
            elif isinstance(node, (sympy.Add, sympy.Mul, sympy.Pow)) or isinstance(node, sympy.Function):
                stack.append((node, True))
                for a in node.args:
                    stack.append((a, False))
            elif node is sympy.S.Half:
                memo[node] = Fraction(1, 2)
            else:
                raise Untranslatable(f'unsupported sympy node {type(node).__name__}: {str(node)[:60]}')
            continue
        if isinstance(node, sympy.Add):
            r = 0
            for a in node.args:
                r = r + memo[a]
            memo[node] = r
        elif isinstance(node, sympy.Mul):
            r = 1
            for a in node.args:
                r = r * memo[a]
            memo[node] = r
        elif isinstance(node, sympy.Pow):
            base, ex = node.args
            b = memo[base]
            x = memo[ex]
            if isinstance(x, int):
                memo[node] = _pow(b, x)
            elif isinstance(x, Fraction) and x.denominator in (1, 2):
                memo[node] = _pow(b, x if x.denominator == 2 else int(x))
            else:
                raise Untranslatable(f'power with exponent {ex}')
        elif isinstance(node, sympy.Function):
            fname = type(node).__name__
            if fname not in ('cos', 'sinc', 'cosh', 'sinh', 'sin') or len(node.args) != 1:
                raise Untranslatable(f'function {fname}')
            a = memo[node.args[0]]
            if isinstance(a, SV):
                memo[node] = SV(uf(fname)(a.t))
            else:
                memo[node] = float(getattr(sympy, fname)(sympy.Rational(a.numerator, a.denominator)) if isinstance(a, Fraction) else getattr(sympy, fname)(a))
        else:
            raise Untranslatable(type(node).__name__)
    return memo[e]


def _pow(b, x):
    if isinstance(b, SV):
        return b ** x
    if isinstance(x, int):
        if x >= 0:
            return Fraction(b) ** x if not isinstance(b, float) else b ** x
        return 1 / (Fraction(b) ** (-x)) if not isinstance(b, float) else b ** x
    # half-integer power of a concrete number
    return float(b) ** float(x)
