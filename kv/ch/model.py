"""
Reference model for kingdon's Polynomial / RationalPolynomial used inside CrossHair harnesses:
a polynomial is a dict {sorted tuple of variable names: integer coefficient}; missing = 0.
Deliberately tiny and branch-poor (it is executed symbolically together with the real code).
"""
from kingdon.polynomial import compare


def pdict(p):
    """dictionary denoted by a kingdon Polynomial (monomial = [coeff, var, var, ...])."""
    d = {}
    for mono in p.args:
        key = tuple(sorted(mono[1:]))
        d[key] = d.get(key, 0) + mono[0]
    return d


def dsame(d1, d2):
    for k in d1:
        if d1[k] != d2.get(k, 0):
            return False
    for k in d2:
        if k not in d1 and d2[k] != 0:
            return False
    return True


def dzero(d):
    for k in d:
        if d[k] != 0:
            return False
    return True


def dadd(d1, d2):
    r = dict(d1)
    for k in d2:
        r[k] = r.get(k, 0) + d2[k]
    return r


def dneg(d):
    return {k: -d[k] for k in d}


def dmul(d1, d2):
    r = {}
    for k1 in d1:
        for k2 in d2:
            k = tuple(sorted(k1 + k2))
            r[k] = r.get(k, 0) + d1[k1] * d2[k2]
    return r


def dpow(d, n):
    r = {(): 1}
    for _ in range(n):
        r = dmul(r, d)
    return r


def well_formed(p):
    """class invariant: monomials strictly increasing under compare, variables sorted inside each
    monomial, no zero coefficient stored (the zero polynomial is [] or [[0]])."""
    args = p.args
    if len(args) == 1 and len(args[0]) == 1:
        return True
    for i in range(len(args)):
        m = args[i]
        if m[0] == 0:
            return False
        for j in range(1, len(m) - 1):
            if m[j] > m[j + 1]:
                return False
        if i + 1 < len(args) and compare(m, args[i + 1]) >= 0:
            return False
    return True


def sgn(x):
    return (x > 0) - (x < 0)
