"""
Runs CrossHair on the generated harness modules (one process per module, in parallel), parses
its verdicts and replays every reported counterexample against the real code before it counts.

 Confirmed over all paths           -> ok (for a twin: vacuity alarm)
 error: ... when calling f(args)    -> replayed by importing the module and calling f(args);
                                       reproduced -> violation (for a twin: the expected refutation)
 Not confirmed / Unable to meet precondition / timeout -> inconclusive (never a pass)
"""
from __future__ import annotations

import ast
import importlib.util
import os
import re
import shutil
import subprocess
import sys
import tempfile
import time
from concurrent.futures import ThreadPoolExecutor

from ..core import _new_result, _violation

ROOT = os.path.dirname(os.path.dirname(os.path.dirname(os.path.abspath(__file__))))


def _func_lines(src):
    tree = ast.parse(src)
    return sorted((n.lineno, n.end_lineno, n.name) for n in tree.body if isinstance(n, ast.FunctionDef))


def _env():
    env = dict(os.environ)
    pp = [ROOT]
    if env.get('KV_REPO'):
        pp.insert(0, env['KV_REPO'])
    if env.get('PYTHONPATH'):
        pp.append(env['PYTHONPATH'])
    env['PYTHONPATH'] = os.pathsep.join(pp)
    env['PYTHONHASHSEED'] = '0'
    return env


def _run_module(workdir, modname, src, meta, per_condition_timeout):
    path = os.path.join(workdir, modname + '.py')
    with open(path, 'w') as f:
        f.write(src)
    t0 = time.time()
    budget = per_condition_timeout * (len(meta) + 1) * 2 + 60
    try:
        p = subprocess.run([sys.executable, '-m', 'crosshair', 'check', '--report_all', '--per_condition_timeout', str(per_condition_timeout),
                            '--per_path_timeout', str(max(5, per_condition_timeout // 4)), path],
                           capture_output=True, text=True, env=_env(), timeout=budget, cwd=workdir)
        out = p.stdout + p.stderr
    except subprocess.TimeoutExpired as e:
        out = (e.stdout or b'').decode() if isinstance(e.stdout, bytes) else (e.stdout or '')
        out += '\nTIMEOUT'
    wall = time.time() - t0
    spans = _func_lines(src)
    verdicts = {}
    for line in out.splitlines():
        m = re.match(r'^(.*?\.py):(\d+): (info|error|warning): (.*)$', line)
        if not m:
            continue
        ln = int(m.group(2))
        fn = next((name for (a, b, name) in spans if a <= ln <= b), None)
        if fn:
            verdicts.setdefault(fn, []).append((m.group(3), m.group(4)))
    results = []
    for h in meta:
        desc = dict(kind='crosshair:' + h['kind'], harness=h['name'], module=modname, shapes=h.get('shapes'))
        res = _new_result(desc)
        res['nontrivial'] = True
        res['wall_s'] = wall / max(1, len(meta))
        res['queries'] = 1
        v = verdicts.get(h['name'], [])
        texts = [t for _, t in v]
        confirmed = any('Confirmed over all paths' in t for t in texts)
        errors = [t for lvl, t in v if lvl == 'error']
        if h['twin']:
            if errors:
                res['notes'].append('twin refuted as required')
                res['canary'] = 'sat'
            elif confirmed:
                res['status'] = 'error'
                res['notes'].append('VACUOUS: reachability twin was confirmed')
            else:
                res['status'] = 'inconclusive'
                res['notes'].append(f'twin undecided: {texts[:2]}')
        elif errors:
            ok, detail = _replay(path, h['name'], errors[0])
            if ok:
                res['status'] = 'violation'
                res['sat'] = 1
                res['violations'].append(_violation('C17', desc, h['kind'], f'crosshair|{h["kind"].split("#")[0]}', detail,
                                                    {'call': _call_text(errors[0]) or ''}, kind='crosshair'))
                res['violations'][-1]['source'] = _func_src(src, h['name'])
            else:
                res['status'] = 'error'
                res['notes'].append(f'CrossHair counterexample did not replay: {errors[0][:200]} / {detail}')
        elif confirmed:
            res['unsat'] = 1
        elif any('Not confirmed' in t for t in texts):
            # CrossHair ran out of its per-condition time budget without finding a counterexample:
            # the harness was not explored exhaustively -> counted as NOT explored, never as a pass
            res['status'] = 'timeout'
            res['notes'].append('CrossHair: Not confirmed within the per-condition budget (not explored exhaustively)')
        else:
            res['status'] = 'inconclusive'
            res['notes'].append(f'CrossHair: {texts[:2] or out[-300:]}')
        results.append(res)
    return results


def _call_text(msg):
    m = re.search(r'when calling (\w+\(.*\))', msg)
    if not m:
        return None
    txt = m.group(1)
    # cut a trailing explanation such as " (which returns False)"
    depth = 0
    for i, ch in enumerate(txt):
        if ch == '(':
            depth += 1
        elif ch == ')':
            depth -= 1
            if depth == 0:
                return txt[:i + 1]
    return txt


def _func_src(src, name):
    for a, b, n in _func_lines(src):
        if n == name:
            return '\n'.join(src.splitlines()[a - 1:b])
    return ''


def _replay(path, fname, msg):
    call = _call_text(msg)
    if not call:
        return False, 'no call text'
    code = ("import sys, importlib.util\n"
            f"spec = importlib.util.spec_from_file_location('m', {path!r}); m = importlib.util.module_from_spec(spec); spec.loader.exec_module(m)\n"
            "from kv.ch import model\n"
            f"r = eval({call!r}, dict(vars(m)))\n"
            "print('RESULT', r)\n")
    p = subprocess.run([sys.executable, '-c', code], capture_output=True, text=True, env=_env(), timeout=120)
    out = p.stdout + p.stderr
    if 'RESULT False' in out:
        return True, f'{call} returns False on the real code (postcondition: result equals the reference model)'
    if p.returncode != 0 and 'RESULT' not in out:
        last = out.strip().splitlines()[-1] if out.strip() else ''
        return True, f'{call} raises on the real code: {last[:200]}'
    return False, out[-200:]


def run_all(modules, jobs, per_condition_timeout):
    work = tempfile.mkdtemp(prefix='kvch_')
    try:
        results = []
        with ThreadPoolExecutor(max_workers=jobs) as ex:
            futs = [ex.submit(_run_module, work, name, src, meta, per_condition_timeout) for name, src, meta in modules]
            for f in futs:
                results.extend(f.result())
        return results
    finally:
        shutil.rmtree(work, ignore_errors=True)
