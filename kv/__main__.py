import argparse
import os
import sys


def main():
    ap = argparse.ArgumentParser(prog='kv')
    ap.add_argument('prop', nargs='?')
    ap.add_argument('tier', nargs='?', default=os.environ.get('VERIF_TIER', 'quick'))
    ap.add_argument('--replay')
    ap.add_argument('--jobs', type=int, default=None)
    ap.add_argument('--limit', type=int, default=None)
    ap.add_argument('--seed', type=int, default=int(os.environ.get('VERIF_SEED', '0') or 0))
    ap.add_argument('-v', '--verbose', action='store_true')
    a = ap.parse_args()
    os.environ.setdefault('KINGDON_VERIF', '1')
    from . import run
    if a.replay:
        sys.exit(run.replay(a.replay))
    if not a.prop:
        ap.error('property id required')
    tier = a.tier if a.tier in ('quick', 'thorough') else 'quick'
    sys.exit(run.run_property(a.prop.upper(), tier, a.seed, a.jobs, a.limit, a.verbose))


if __name__ == '__main__':
    main()
