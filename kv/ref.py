"""
Independent reference Clifford algebra (the oracle).

Generators are named by hex digit; generator with name ``n`` squares to
``signature[n - start_index]``.  Reference blades are bitmasks over generators *sorted by
name* (bit i <-> name start_index + i).  The product sign of two reference blades is the
closed form

    sign(I, J) = (-1)^{ sum_{j in J} popcount(I >> (j+1)) } * prod_{k in I & J} s_k

No code is shared with kingdon's string-swapping ``_swap_blades``; the only things read
from a kingdon ``Algebra`` are its public name tables (``bin2canon``/``canon2bin``), its
``signature`` and ``start_index``.

Multivectors are plain dicts {mask: value}; values may be SV proxies, Fractions, ints,
floats or sympy expressions -- only + - * (and / by ints) are used.
"""
from __future__ import annotations

from fractions import Fraction
from itertools import combinations
from math import factorial


def popcount(x: int) -> int:
    return bin(x).count('1')


def reorder_sign(I: int, J: int) -> int:
    """(-1)^{number of pairs (i in I, j in J) with i > j}."""
    sw = 0
    j = 0
    JJ = J
    while JJ:
        if JJ & 1:
            sw += popcount(I >> (j + 1))
        JJ >>= 1
        j += 1
    return -1 if sw & 1 else 1


def spelling_to_mask(names, start_index):
    """
    Reduce a *spelling* (sequence of distinct generator names, hex digits) denoting the
    ordered product of those generators to (sign, mask): sign = parity of inversions.
    """
    idx = [int(ch, 16) - start_index for ch in names]
    if len(set(idx)) != len(idx):
        raise ValueError('repeated generator in spelling')
    inv = sum(1 for a in range(len(idx)) for b in range(a + 1, len(idx)) if idx[a] > idx[b])
    mask = 0
    for i in idx:
        mask |= 1 << i
    return (-1 if inv & 1 else 1), mask


class RefAlg:
    """Reference algebra for a signature given *by generator name order*."""

    def __init__(self, sig_by_name, start_index=1):
        self.sig = list(sig_by_name)       # sig[i] = square of generator named start_index+i
        self.d = len(self.sig)
        self.start_index = start_index
        self.full = (1 << self.d) - 1

    # ----- blade level
    def metric(self, common: int):
        r = 1
        i = 0
        while common:
            if common & 1:
                r = r * self.sig[i]
            common >>= 1
            i += 1
        return r

    def sign(self, I: int, J: int):
        return reorder_sign(I, J) * self.metric(I & J)

    # ----- multivector level ({mask: value})
    @staticmethod
    def _acc(res, k, v):
        if k in res:
            res[k] = res[k] + v
        else:
            res[k] = v

    def product(self, a: dict, b: dict, keep=None):
        """bilinear extension; ``keep(ga, gb, gout)`` filters terms by grades."""
        res = {}
        for I, x in a.items():
            for J, y in b.items():
                m = self.metric(I & J)
                if isinstance(m, int) and m == 0:
                    continue
                K = I ^ J
                if keep is not None and not keep(popcount(I), popcount(J), popcount(K)):
                    continue
                s = reorder_sign(I, J)
                t = x * y
                if not (isinstance(m, int) and m == 1):
                    t = t * m
                self._acc(res, K, t if s > 0 else -t)
        return res

    def gp(self, a, b): return self.product(a, b)
    def op(self, a, b): return self.product(a, b, lambda r, s, k: k == r + s)
    def ip(self, a, b): return self.product(a, b, lambda r, s, k: k == abs(r - s))
    def lc(self, a, b): return self.product(a, b, lambda r, s, k: k == s - r)
    def rc(self, a, b): return self.product(a, b, lambda r, s, k: k == r - s)
    def sp(self, a, b): return self.product(a, b, lambda r, s, k: k == 0)

    def add(self, a, b):
        res = dict(a)
        for k, v in b.items():
            self._acc(res, k, v)
        return res

    def neg(self, a): return {k: -v for k, v in a.items()}
    def sub(self, a, b): return self.add(a, self.neg(b))
    def scale(self, a, c): return {k: v * c for k, v in a.items()}

    def cp(self, a, b):
        return self.scale(self.sub(self.gp(a, b), self.gp(b, a)), Fraction(1, 2))

    def acp(self, a, b):
        return self.scale(self.add(self.gp(a, b), self.gp(b, a)), Fraction(1, 2))

    def grade(self, a, grades):
        grades = set(grades)
        return {k: v for k, v in a.items() if popcount(k) in grades}

    def reverse(self, a):
        return {k: (-v if (popcount(k) * (popcount(k) - 1) // 2) & 1 else v) for k, v in a.items()}

    def involute(self, a):
        return {k: (-v if popcount(k) & 1 else v) for k, v in a.items()}

    def conjugate(self, a):
        return {k: (-v if (popcount(k) * (popcount(k) + 1) // 2) & 1 else v) for k, v in a.items()}

    def sw(self, a, b): return self.gp(self.gp(a, b), self.reverse(a))
    def proj(self, a, b): return self.gp(self.ip(a, b), self.reverse(b))
    def normsq(self, a): return self.gp(a, self.reverse(a))

    # ----- duality relative to a given unit pseudoscalar  pss = sigma * e_full
    def hodge(self, a, sigma=1):
        """⋆E defined by  E ∧ ⋆E = sigma * e_full  for every basis blade E."""
        res = {}
        for I, v in a.items():
            C = self.full ^ I
            s = reorder_sign(I, C) * sigma       # E_I ^ E_C = reorder_sign * e_full
            res[C] = v if s > 0 else -v
        return res

    def unhodge(self, a, sigma=1):
        """inverse map of hodge."""
        res = {}
        for C, v in a.items():
            I = self.full ^ C
            s = reorder_sign(I, C) * sigma
            res[I] = v if s > 0 else -v
        return res

    def rp(self, a, b, sigma=1):
        return self.unhodge(self.op(self.hodge(a, sigma), self.hodge(b, sigma)), sigma)

    def pss_sq(self):
        return self.sign(self.full, self.full)

    def polarity(self, a, sigma=1):
        """a * pss^{-1}, pss = sigma*e_full, pss^{-1} = pss / pss^2 (pss^2 = ±1)."""
        sq = self.pss_sq()
        if sq == 0:
            raise ZeroDivisionError
        return self.gp(a, {self.full: sigma * sq})

    def unpolarity(self, a, sigma=1):
        return self.gp(a, {self.full: sigma})

    # ----- series
    def wedge_power(self, a, k):
        res = {0: 1}
        for _ in range(k):
            res = self.op(res, a)
        return res

    def outerexp_terms(self, a, kmax=None):
        kmax = self.d if kmax is None else kmax
        terms = []
        w = {0: 1}
        for k in range(kmax + 1):
            if k:
                w = self.op(w, a)
            terms.append(self.scale(w, Fraction(1, factorial(k))))
        return terms

    def power(self, a, n):
        res = {0: 1}
        for _ in range(n):
            res = self.gp(res, a)
        return res


class KMap:
    """
    Relation between a kingdon Algebra's binary keys and reference masks, through the
    public name tables only:  kingdon blade with key K is named bin2canon[K] = 'e' + w and
    denotes the ordered product of the generators spelled by w.
    """

    def __init__(self, alg):
        self.alg = alg
        self.d = alg.d
        self.start_index = alg.start_index
        self.ref = RefAlg([_num(s) for s in alg.signature], alg.start_index)
        self.key2ref = {}
        self.ref2key = {}
        for key, name in alg.bin2canon.items():
            s, m = spelling_to_mask(name[1:], alg.start_index)
            self.key2ref[key] = (s, m)
            self.ref2key[m] = (s, key)
        if len(self.ref2key) != 2 ** self.d:
            raise ValueError('basis names do not denote 2^d distinct blades')
        # the algebra's pseudoscalar element is +1 * (blade named bin2canon[2^d-1])
        self.sigma = self.key2ref[(1 << self.d) - 1][0]

    def to_ref(self, items) -> dict:
        """{kingdon key: value} (dict or iterable of pairs) -> {mask: value}."""
        res = {}
        it = items.items() if hasattr(items, 'items') else items
        for k, v in it:
            s, m = self.key2ref[k]
            RefAlg._acc(res, m, v if s > 0 else -v)
        return res

    def from_ref(self, a: dict) -> dict:
        """{mask: value} -> {kingdon key: value}."""
        res = {}
        for m, v in a.items():
            s, k = self.ref2key[m]
            res[k] = v if s > 0 else -v
        return res

    def spelling(self, name: str):
        """(sign, kingdon key) of an arbitrary spelling 'e31' of a blade of this algebra."""
        s, m = spelling_to_mask(name[1:], self.start_index)
        s2, k = self.ref2key[m]
        return s * s2, k


def _num(s):
    import numpy as np
    if isinstance(s, (int, np.integer)):
        return int(s)
    return s
