"""
Case driver: symbolic run -> claims -> z3 verdict -> concrete replay -> result record.

A *case* is a JSON-able descriptor ``desc`` understood by a property module's
``run_case(desc, V)``; ``V`` is a value factory (symbolic: SV proxies; concrete: Fractions).
``run_case`` drives kingdon's real public API and returns claims:

    Eq(label, lhs, rhs)   lhs == rhs must hold for all values (under the recorded side conditions)
    Fail(label, detail)   a violation that is concrete already (unexpected exception, wrong key set ...)
    Unsat(label, formula) symbolic-only obligation: `formula` must be unsatisfiable
    Note(label, text)     bookkeeping (skipped sub-checks, outside-the-bound markers)

The verdict on the Eq claims of a case is ONE solver query: assumptions /\\ path /\\ OR(lhs != rhs).
unsat = holds for every coefficient value; sat = candidate counterexample, which is replayed
by running the *same* case on exact rationals taken from the model -- only a reproduced
mismatch is reported; unknown = inconclusive (never a pass).
"""
from __future__ import annotations

import hashlib
import json
import os
import time
import traceback
import warnings
from dataclasses import dataclass, field
from fractions import Fraction

import z3

from . import sym
from .sym import SV, Ctx, SymFactory, ConcreteFactory, ValueBranch, PathBudget, lift


# --------------------------------------------------------------------------- claims

@dataclass
class Eq:
    label: str
    lhs: object
    rhs: object
    fkey: str = None


@dataclass
class Fail:
    label: str
    detail: str
    fkey: str = None


@dataclass
class Unsat:
    label: str
    formula: object
    fkey: str = None
    detail: str = ''
    free: bool = False      # True: decide the formula WITHOUT the recorded side conditions / path


@dataclass
class Note:
    label: str
    text: str = ''


class ExpectedRaise(Exception):
    """raised by harness helpers to signal 'the call was expected to raise and did not'."""


# --------------------------------------------------------------------------- helpers

def _is_exact(x):
    return isinstance(x, (int, Fraction)) and not isinstance(x, bool) or isinstance(x, bool)


def concrete_equal(a, b, tol=1e-7):
    import numpy as np
    if isinstance(a, (np.integer,)):
        a = int(a)
    if isinstance(b, (np.integer,)):
        b = int(b)
    if _is_exact(a) and _is_exact(b):
        return a == b
    try:
        import sympy
        if isinstance(a, sympy.Basic) or isinstance(b, sympy.Basic):
            d = sympy.simplify(sympy.sympify(a) - sympy.sympify(b))
            if d == 0:
                return True
            if d.is_number:
                return abs(complex(d)) <= tol
            return False
    except ImportError:
        pass
    try:
        fa, fb = complex(a), complex(b)
    except Exception:
        return a == b
    if fa != fa or fb != fb:
        return False
    return abs(fa - fb) <= tol * (1 + abs(fa) + abs(fb))


def _fmt(x):
    if isinstance(x, Fraction):
        return str(x)
    if isinstance(x, SV):
        s = str(z3.simplify(x.t))
        return s if len(s) < 200 else s[:197] + '...'
    return repr(x)


def model_values(model, names):
    vals, exact = {}, True
    for n in dict.fromkeys(names):
        v = model.eval(z3.Real(n), model_completion=True)
        if z3.is_rational_value(v):
            vals[n] = Fraction(v.numerator_as_long(), v.denominator_as_long())
        elif z3.is_algebraic_value(v):
            a = v.approx(30)
            vals[n] = Fraction(a.numerator_as_long(), a.denominator_as_long())
            exact = False
        else:
            vals[n] = Fraction(0)
            exact = False
    return vals, exact


# --------------------------------------------------------------------------- one case

class CaseResult(dict):
    pass


def _new_result(desc):
    return CaseResult(desc=desc, status='ok', queries=0, unsat=0, sat=0, unknown=0,
                      solver_s=0.0, wall_s=0.0, n_eq=0, n_eq_nontrivial=0, paths=1,
                      violations=[], notes=[], canary=None, assumptions=0, rlimit_spent=0)


SOLVER_TIMEOUT_MS = int(os.environ.get('KV_SOLVER_TIMEOUT_MS', '240000'))


def mk_solver(rlimit):
    s = z3.Solver()
    s.set('rlimit', rlimit)
    s.set('timeout', SOLVER_TIMEOUT_MS)
    return s


def _rl(s):
    try:
        st = s.statistics()
        for k in st.keys():
            if k == 'rlimit count':
                return int(st.get_key_value(k))
    except Exception:
        pass
    return 0


def _check(s, res):
    t = time.time()
    r = s.check()
    res['solver_s'] += time.time() - t
    res['queries'] += 1
    res['rlimit_spent'] += _rl(s)
    res[str(r)] = res.get(str(r), 0) + 1
    return r


def _run_concrete(mod, desc, values, seed=0):
    """Run the case on exact rationals.  Returns (claims | None, exception | None)."""
    V = ConcreteFactory(values, default_seed=seed)
    ctx = Ctx()  # unused by Fractions, but keeps recording isolated
    with warnings.catch_warnings():
        warnings.simplefilter('ignore')
        with ctx:
            try:
                return mod.run_case(desc, V), None, V
            except ZeroDivisionError as e:
                return None, e, V
            except Exception as e:  # noqa
                return None, e, V


def _strip_idx(label):
    import re
    return re.sub(r'\[[^\]]*\]', '', label)


def _violation(prop, desc, label, fkey, detail, values=None, lhs=None, rhs=None, kind='value'):
    return dict(property=prop, desc=desc, label=label, fkey=fkey or f'{desc.get("kind")}|{_strip_idx(label)}',
                detail=detail, values={k: str(v) for k, v in (values or {}).items()},
                lhs=lhs, rhs=rhs, vkind=kind)


class CaseTimeout(BaseException):
    """wall-clock budget of one case exhausted inside Python-level code (code generation, sympy)."""


def _alarm(signum, frame):
    raise CaseTimeout()


def prove_case(mod, desc, opts):
    """Decide one case.  Never raises; problems become status 'inconclusive'/'error'/'timeout'."""
    import signal
    budget = float(desc.get('budget_s') or opts.get('case_budget_s', 0) or 0)
    if not budget or not hasattr(signal, 'setitimer'):
        return _prove_case(mod, desc, opts)
    old = signal.signal(signal.SIGALRM, _alarm)
    signal.setitimer(signal.ITIMER_REAL, budget)
    try:
        return _prove_case(mod, desc, opts)
    except CaseTimeout:
        res = _new_result(desc)
        res['status'] = 'timeout'
        res['wall_s'] = budget
        res['notes'].append(f'case budget of {budget:.0f}s exhausted (code generation / symbolic simplification); not explored')
        return res
    finally:
        signal.setitimer(signal.ITIMER_REAL, 0)
        signal.signal(signal.SIGALRM, old)


def _prove_case(mod, desc, opts):
    res = _new_result(desc)
    t0 = time.time()
    rlimit = opts.get('rlimit', 50_000_000)
    prop = mod.PROP
    fork = bool(desc.get('fork')) or getattr(mod, 'FORK', False)
    try:
        if not fork:
            try:
                _prove_path_set(mod, desc, opts, res, rlimit, fork=False)
            except ValueBranch as vb:
                res['notes'].append(f'value-dependent branch met in no-fork mode ({vb}); re-run in fork mode')
                res2 = _new_result(desc)
                res2['notes'] = res['notes']
                res = res2
                _prove_path_set(mod, desc, opts, res, rlimit, fork=True)
        else:
            _prove_path_set(mod, desc, opts, res, rlimit, fork=True)
    except PathBudget as e:
        res['status'] = 'inconclusive'
        res['notes'].append(f'path budget: {e}')
    except Exception as e:  # harness problem
        res['status'] = 'error'
        res['notes'].append('harness exception: ' + ''.join(traceback.format_exception_only(type(e), e)).strip())
        res['notes'].append(traceback.format_exc()[-1500:])
    res['wall_s'] = time.time() - t0
    return res


def _prove_path_set(mod, desc, opts, res, rlimit, fork):
    prop = mod.PROP
    if not fork:
        V = SymFactory()
        ctx = Ctx()
        claims, exc = _sym_run(mod, desc, V, ctx)
        _decide(mod, desc, opts, res, rlimit, V, ctx, claims, exc)
        return
    npaths = 0
    holder = {}

    def fn():
        V = SymFactory()
        holder['V'] = V
        try:
            return mod.run_case(desc, V), None
        except (ValueBranch, PathBudget, sym.Infeasible):
            raise
        except Exception as e:  # noqa
            return None, e

    with warnings.catch_warnings():
        warnings.simplefilter('ignore')
        for ctx, (claims, exc) in sym.explore(fn, max_paths=opts.get('max_paths', 64),
                                              max_depth=opts.get('max_depth', 64)):
            npaths += 1
            _decide(mod, desc, opts, res, rlimit, holder['V'], ctx, claims, exc)
            if ctx.unknown_decisions:
                res['notes'].append(f'{ctx.unknown_decisions} decision feasibility checks were unknown (treated feasible)')
    res['paths'] = npaths


def _sym_run(mod, desc, V, ctx):
    with warnings.catch_warnings():
        warnings.simplefilter('ignore')
        with ctx:
            try:
                return mod.run_case(desc, V), None
            except ValueBranch:
                raise
            except Exception as e:  # noqa
                return None, e


def _decide(mod, desc, opts, res, rlimit, V, ctx, claims, exc):
    prop = mod.PROP
    res['assumptions'] += len(ctx.assumptions)
    base = list(ctx.assumptions) + list(ctx.path)

    # -- the symbolic run raised: is it real?  (replayed on concrete values satisfying the path)
    if exc is not None:
        values = {}
        if base:
            s = mk_solver(rlimit); s.add(*base)
            if _check(s, res) == z3.sat:
                values, _ = model_values(s.model(), V.names)
        cclaims, cexc, _ = _run_concrete(mod, desc, values)
        if cexc is not None and type(cexc).__name__ == type(exc).__name__:
            label = f'exception:{type(exc).__name__}'
            fkey = f'{desc.get("kind")}|{label}'
            hook = getattr(mod, 'exception_fkey', None)
            if hook:
                fkey = hook(desc, exc) or fkey
            res['violations'].append(_violation(prop, desc, label, fkey,
                                                f'{type(exc).__name__}: {exc}', values, kind='exception'))
            res['status'] = 'violation'
        else:
            res['status'] = 'error'
            res['notes'].append(f'symbolic run raised {type(exc).__name__}: {exc}; concrete replay '
                                f'{"raised " + type(cexc).__name__ + ": " + str(cexc) if cexc else "did not raise"}')
            res['notes'].append(''.join(traceback.format_exception(type(exc), exc, exc.__traceback__))[-1500:])
        return

    # -- sharing lemmas of the proxy (denominators / radicands conjectured equal): must be identities
    for (t1, t0) in getattr(ctx, 'lemmas', []):
        s = mk_solver(rlimit)
        s.add(t1 != t0)
        r = _check(s, res)
        if r != z3.unsat:
            res['status'] = 'error' if res['status'] == 'ok' else res['status']
            res['notes'].append(f'proxy sharing lemma not discharged ({r}): two denominators/radicands agree at the fingerprint point but are not proved identical')
            return

    eqs, fails, unsats = [], [], []
    if getattr(mod, 'LABEL_MOVEMENT', False) and V.names:
        res['nontrivial'] = True
    for c in claims:
        if isinstance(c, Eq):
            eqs.append(c)
        elif isinstance(c, Fail):
            fails.append(c)
        elif isinstance(c, Unsat):
            unsats.append(c)
        elif isinstance(c, Note):
            if c.label == 'nontrivial':
                res['nontrivial'] = True
            else:
                res['notes'].append(f'{c.label}: {c.text}')

    # -- concrete failures reported by the harness itself: confirm on a concrete run
    if fails:
        values = {}
        if base:
            s = mk_solver(rlimit); s.add(*base)
            if _check(s, res) == z3.sat:
                values, _ = model_values(s.model(), V.names)
        cclaims, cexc, _ = _run_concrete(mod, desc, values)
        clabels = {c.label for c in (cclaims or []) if isinstance(c, Fail)}
        for f in fails:
            if f.label in clabels or cexc is not None:
                res['violations'].append(_violation(prop, desc, f.label, f.fkey, f.detail, values, kind='concrete'))
                res['status'] = 'violation'
            else:
                res['status'] = 'error' if res['status'] == 'ok' else res['status']
                res['notes'].append(f'Fail claim {f.label!r} did not reproduce concretely')

    # -- vacuity guard: side conditions alone must be satisfiable (only needed when something is to be proved)
    def _nontrivial(c):
        a, b = lift(c.lhs), lift(c.rhs)
        return a is None or b is None or not a.eq(b)
    if ctx.assumptions and (unsats or any(_nontrivial(c) for c in eqs)):
        s = mk_solver(rlimit); s.add(*base)
        r = _check(s, res)
        if r == z3.unsat:
            # The proxy's own side conditions (non-zero denominators, root domains) contradict the
            # path condition: on this FEASIBLE path the real code divides by zero / leaves the
            # domain.  That is not vacuous success -- replay the path concretely.
            if ctx.path:
                sp = mk_solver(rlimit); sp.add(*ctx.path)
                if _check(sp, res) == z3.sat:
                    values, _ = model_values(sp.model(), V.names)
                    cclaims, cexc, _ = _run_concrete(mod, desc, values)
                    bad = None
                    if cexc is not None:
                        bad = f'{type(cexc).__name__}: {cexc}'
                    else:
                        for c in cclaims:
                            if isinstance(c, Eq) and not concrete_equal(c.lhs, c.rhs):
                                bad = f'{c.label}: got {_fmt(c.lhs)} expected {_fmt(c.rhs)}'
                                break
                            if isinstance(c, Fail):
                                bad = c.detail
                                break
                    if bad:
                        res['violations'].append(_violation(mod.PROP, desc, 'side-condition-violated-on-feasible-path',
                                                            f'{desc.get("kind")}|side-condition-violated-on-feasible-path',
                                                            'on a feasible path the code divides by zero or leaves the domain of a root: ' + bad, values, kind='path'))
                        res['status'] = 'violation'
                        return
            res['status'] = 'error' if res['status'] == 'ok' else res['status']
            res['notes'].append('VACUOUS: recorded side conditions are unsatisfiable')
            return
        if r == z3.unknown:
            res['notes'].append('side-condition satisfiability unknown')

    # -- Eq claims: one query
    lits, live = [], []
    for c in eqs:
        a, b = lift(c.lhs), lift(c.rhs)
        if a is None or b is None:
            raise TypeError(f'claim {c.label}: cannot lift {type(c.lhs).__name__} / {type(c.rhs).__name__}')
        res['n_eq'] += 1
        if a.eq(b):
            continue
        lits.append(a != b)
        live.append(c)
    res['n_eq_nontrivial'] += len(live)
    if lits:
        s = mk_solver(rlimit)
        s.add(*base)
        s.add(z3.Or(*lits))
        r = _check(s, res)
        if r == z3.unknown and len(lits) > 1:
            # retry claim by claim (smaller queries are often decided)
            r = z3.unsat
            for c, l in zip(live, lits):
                s1 = mk_solver(rlimit); s1.add(*base); s1.add(l)
                r1 = _check(s1, res)
                if r1 == z3.sat:
                    r, s = r1, s1
                    break
                if r1 == z3.unknown:
                    r = z3.unknown
        if r == z3.unknown:
            res['status'] = 'inconclusive' if res['status'] == 'ok' else res['status']
            res['notes'].append(f'solver returned unknown within rlimit {rlimit}')
        elif r == z3.sat:
            _replay_sat(mod, desc, res, V, s.model(), live)
        # second solver (cvc5) on a sample of the decided queries: any disagreement is a harness error
        if opts.get('cvc5') and r in (z3.unsat, z3.sat):
            v2 = _cvc5_verdict(s)
            res['cvc5'] = v2
            if v2 in ('sat', 'unsat') and v2 != str(r):
                res['status'] = 'error'
                res['notes'].append(f'SOLVER DISAGREEMENT: z3 says {r}, cvc5 says {v2}')
        # proxy fidelity: on exact pseudo-random rationals the same case must satisfy every equality
        if opts.get('fidelity') and r == z3.unsat and not ctx.path:
            bad = _fidelity(mod, desc, V, ctx, rlimit)
            res['fidelity'] = 'ok' if bad is None else bad
            if bad not in (None, 'skipped'):
                res['status'] = 'error'
                res['notes'].append('PROXY FIDELITY: the solver proved the equalities but exact rational evaluation disagrees: ' + bad)
        # canary: a deliberately wrong spec must be refuted
        if opts.get('canary') and r == z3.unsat:
            c = live[0]
            s2 = mk_solver(rlimit); s2.add(*base)
            s2.add(lift(c.lhs) != lift(c.rhs) + 1)
            rc = _check(s2, res)
            res['canary'] = str(rc)
            if rc == z3.unsat:
                res['status'] = 'error'
                res['notes'].append('CANARY: corrupted specification was not refuted')

    # -- Unsat obligations (exists-queries)
    for u in unsats:
        s = mk_solver(rlimit)
        if not u.free:
            s.add(*base)
        s.add(u.formula)
        r = _check(s, res)
        if r == z3.unknown:
            res['status'] = 'inconclusive' if res['status'] == 'ok' else res['status']
            res['notes'].append(f'{u.label}: unknown')
        elif r == z3.sat:
            values, exact = model_values(s.model(), V.names)
            confirm = getattr(mod, 'confirm_unsat', None)
            ok = confirm(desc, u, values) if confirm else None
            if ok:
                res['violations'].append(_violation(mod.PROP, desc, u.label, u.fkey, u.detail or 'witness found',
                                                    values, kind='witness'))
                res['status'] = 'violation'
            else:
                res['status'] = 'error' if res['status'] == 'ok' else res['status']
                res['notes'].append(f'{u.label}: sat witness did not reproduce concretely ({ok})')


_CVC5_SCRIPT = r"""
import sys, cvc5
text = open(sys.argv[1]).read()
slv = cvc5.Solver()
slv.setOption('tlimit-per', sys.argv[2])
slv.setLogic('QF_NRA')
parser = cvc5.InputParser(slv)
parser.setStringInput(cvc5.InputLanguage.SMT_LIB_2_6, text, 'q')
sm = parser.getSymbolManager()
result = 'unknown'
while True:
    cmd = parser.nextCommand()
    if cmd.isNull():
        break
    o = str(cmd.invoke(slv, sm)).strip()
    if o in ('sat', 'unsat', 'unknown'):
        result = o
print('CVC5RESULT', result)
"""


def _cvc5_verdict(z3solver, timeout_ms=20000):
    """
    Re-decide the assertions of a z3 solver with cvc5: 'sat' | 'unsat' | 'unknown' | 'n/a'.
    cvc5 runs in a CHILD PROCESS that is killed after a hard wall-clock limit: its own time limit is not
    honoured inside big-number arithmetic (a worker once spun for an hour in gmp).
    """
    import subprocess
    import sys
    import tempfile
    try:
        text = z3solver.to_smt2()
    except Exception:
        return 'n/a'
    if len(text) > 400_000:
        return 'n/a'
    path = None
    try:
        with tempfile.NamedTemporaryFile('w', suffix='.smt2', delete=False) as f:
            f.write(text)
            path = f.name
        p = subprocess.run([sys.executable, '-c', _CVC5_SCRIPT, path, str(timeout_ms)], capture_output=True, text=True,
                           timeout=timeout_ms / 1000 + 15)
        for line in p.stdout.splitlines():
            if line.startswith('CVC5RESULT'):
                return line.split()[1]
        return 'n/a'
    except subprocess.TimeoutExpired:
        return 'unknown'
    except Exception:
        return 'n/a'
    finally:
        if path:
            try:
                os.unlink(path)
            except OSError:
                pass


def _fidelity(mod, desc, V, ctx, rlimit):
    """Evaluate the case on exact rationals satisfying the recorded side conditions; every Eq must hold."""
    values = {}
    if ctx.assumptions:
        s = mk_solver(rlimit); s.add(*ctx.assumptions)
        if s.check() != z3.sat:
            return 'skipped'
        values, exact = model_values(s.model(), V.names)
        if not exact:
            return 'skipped'
    cclaims, cexc, _ = _run_concrete(mod, desc, values, seed=7)
    if cexc is not None:
        return 'skipped' if isinstance(cexc, ZeroDivisionError) else f'concrete run raised {type(cexc).__name__}: {cexc}'
    for c in cclaims:
        if isinstance(c, Eq) and not concrete_equal(c.lhs, c.rhs):
            return f'{c.label}: {_fmt(c.lhs)} != {_fmt(c.rhs)}'
    return None


def _replay_sat(mod, desc, res, V, model, live):
    values, exact = model_values(model, V.names)
    cclaims, cexc, CV = _run_concrete(mod, desc, values)
    if cexc is not None:
        res['status'] = 'error'
        res['notes'].append(f'sat model did not replay: concrete run raised {type(cexc).__name__}: {cexc}; values={ {k: str(v) for k, v in values.items()} }')
        return
    # concrete claims that carry the label of a live symbolic claim (labels may repeat: check every occurrence)
    wanted = {c.label for c in live}
    found = False
    for cc in cclaims:
        if not isinstance(cc, Eq) or cc.label not in wanted:
            continue
        c = cc
        if not concrete_equal(cc.lhs, cc.rhs):
            found = True
            res['violations'].append(_violation(mod.PROP, desc, c.label, c.fkey,
                                                f'{c.label}: got {_fmt(cc.lhs)} expected {_fmt(cc.rhs)}',
                                                values, lhs=_fmt(cc.lhs), rhs=_fmt(cc.rhs)))
    if found:
        res['status'] = 'violation'
    else:
        res['status'] = 'error'
        res['notes'].append('sat model did not reproduce on concrete rationals (encoding suspect): '
                            + json.dumps({k: str(v) for k, v in values.items()})[:600])


# --------------------------------------------------------------------------- worker entry

def worker_chunk(modname, descs, opts):
    import importlib
    os.environ.setdefault('KINGDON_VERIF', '1')
    mod = importlib.import_module(modname)
    from . import kapi
    kapi.install_recorder()
    out = []
    for i, d in enumerate(descs):
        o = dict(opts)
        o['canary'] = bool(opts.get('canary_every')) and (d.get('_idx', i) % opts['canary_every'] == 0)
        o['fidelity'] = bool(opts.get('fidelity_every')) and (d.get('_idx', i) % opts['fidelity_every'] == 1)
        o['cvc5'] = bool(opts.get('cvc5_every')) and (d.get('_idx', i) % opts['cvc5_every'] == 2)
        r = prove_case(mod, d, o)
        out.append(r)
    rec = kapi.recorder_snapshot()
    return out, rec
