"""
Engine A: solver-term proxy values.

``SV`` wraps a z3 ``Real`` term and behaves like an element of a commutative ring, so
that kingdon's *real*, freshly generated and compiled functions -- which are agnostic to
the coefficient type -- can simply be run on them through the public API.  Running them
is symbolic execution: the return value is the z3 term of every output coefficient.

Value inspections (``bool``, ``int``, ``float``, ``__index__`` and the truth value of a
comparison) raise ``ValueBranch`` in the default *no-fork* mode: a run that completes has
therefore provably taken the one path that every coefficient value takes.  In *fork* mode
(``Ctx(fork=True)``, driven by ``explore``) each inspection becomes a decision that is
checked for feasibility with z3 and both feasible outcomes are explored by re-execution
under a decision prefix.

Side conditions introduced by the proxy itself (non-zero denominators, root domains) are
recorded in the active ``Ctx`` and become assumptions of every query about that run.
"""
from __future__ import annotations

import itertools
from fractions import Fraction

import numpy as np
import z3


class ValueBranch(Exception):
    """A coefficient value was inspected where no value-dependent branch is expected."""


class PathBudget(Exception):
    """Fork-mode exploration exceeded its path or depth budget (=> inconclusive)."""


class Infeasible(Exception):
    """Neither outcome of a decision is feasible (the path itself is infeasible)."""


# --------------------------------------------------------------------------- context

class Ctx:
    """Per-run recording context (assumptions, fresh names, fork-mode decisions)."""

    def __init__(self, fork=False, prefix=(), max_depth=64, rlimit=20_000_000):
        self.assumptions = []      # z3 Bool: side conditions of proxy operations
        self.notes = []            # human-readable description of the side conditions
        self.denominators = []     # z3 terms that were divided by
        self.radicands = []        # z3 terms whose square root was taken
        self.nfresh = 0
        self.fork = fork
        self.prefix = list(prefix)
        self.decisions = []        # list[(z3 Bool literal taken)]
        self.taken = []            # list[bool]
        self.siblings = []         # prefixes scheduled by this run
        self.max_depth = max_depth
        self.rlimit = rlimit
        self.pruned = 0
        self.unknown_decisions = 0
        self.float_lifts = 0       # float constants that entered proxy arithmetic (exactness checks)
        self._solver = None

    # -- fresh variables
    def fresh(self, tag):
        self.nfresh += 1
        return z3.Real(f'__{tag}{self.nfresh}')

    # -- side conditions
    def assume(self, cond, note=None):
        self.assumptions.append(cond)
        if note:
            self.notes.append(note)

    @property
    def path(self):
        return list(self.decisions)

    # -- fork mode
    def decide(self, cond):
        """Return the truth value to follow for z3 Bool ``cond``."""
        cond = z3.simplify(cond)
        if z3.is_true(cond):
            return True
        if z3.is_false(cond):
            return False
        i = len(self.taken)
        if i >= self.max_depth:
            raise PathBudget(f'more than {self.max_depth} decisions on one path')
        if i < len(self.prefix):
            v = self.prefix[i]
        else:
            ft = self._feasible(cond)
            ff = self._feasible(z3.Not(cond))
            if ft and ff:
                v = True
                self.siblings.append([*self.taken, False])
            elif ft:
                v = True
                self.pruned += 1
            elif ff:
                v = False
                self.pruned += 1
            else:
                raise Infeasible('no feasible outcome')
        self.taken.append(v)
        self.decisions.append(cond if v else z3.Not(cond))
        return v

    def _feasible(self, lit):
        s = z3.Solver()
        s.set('rlimit', self.rlimit)
        s.set('timeout', 60_000)
        s.add(*self.assumptions)
        s.add(*self.decisions)
        s.add(lit)
        r = s.check()
        if r == z3.unknown:
            # cannot rule it out: treat as feasible (the claim on that path is then decided
            # under the path condition anyway, an infeasible path only costs time)
            self.unknown_decisions += 1
            return True
        return r == z3.sat

    def __enter__(self):
        global CUR
        self._saved = CUR
        CUR = self
        return self

    def __exit__(self, *exc):
        global CUR
        CUR = self._saved
        return False


CUR: Ctx = Ctx()


def cur() -> Ctx:
    return CUR


# --------------------------------------------------------------------------- lifting

SNAP_DEN = 10 ** 6
SNAP_REL = 1e-12
SNAP_ZERO = 1e-13


def snap_float(f: float) -> Fraction:
    """
    Exact rational for a float.  Floats within 1e-12 (relative) of a rational with
    denominator <= 10^6 are snapped to it: kingdon divides code-generation polynomials by
    integers in floating point, so 1/6 appears in generated source as 0.16666666666666666;
    constants below 1e-13 in magnitude are rounding dust of that arithmetic and are read as 0.
    Stated assumption of every real-arithmetic claim (DESIGN section 4).
    """
    if f != f or f in (float('inf'), float('-inf')):
        raise ValueBranch('non-finite float')
    fr = Fraction(f)
    if fr.denominator == 1:
        return fr
    if abs(f) < SNAP_ZERO:
        # rounding dust such as 2.8e-17 left behind by float coefficient arithmetic at generation time
        return Fraction(0)
    sn = fr.limit_denominator(SNAP_DEN)
    if abs(float(sn) - f) <= SNAP_REL * abs(f):
        return sn
    return fr


def lift(o):
    """z3 Real term for a proxy or an exact/float number; None if not a scalar we know."""
    if isinstance(o, _SVOps):
        return o.t
    if isinstance(o, (bool, np.bool_)):
        return z3.RealVal(int(o))
    if isinstance(o, (int, np.integer)):
        return z3.RealVal(int(o))
    if isinstance(o, Fraction):
        return z3.Q(o.numerator, o.denominator)
    if isinstance(o, (float, np.floating)):
        f = float(o)
        if f != f or f in (float('inf'), float('-inf')):
            # a NaN / infinity produced by the real code on this path: an unconstrained poison value.
            # Nothing equals it provably, so any claim touching it comes back sat and is replayed.
            c = cur()
            c.notes.append('non-finite float entered the computation')
            return c.fresh('nan')
        cur().float_lifts += 1
        fr = snap_float(f)
        return z3.Q(fr.numerator, fr.denominator)
    if z3.is_expr(o) and z3.is_arith(o):
        return o
    return None


def _term_vars(t):
    """uninterpreted constants of a term (iterative DAG walk: terms get deep)."""
    seen, out, stack = set(), [], [t]
    while stack:
        e = stack.pop()
        i = e.get_id()
        if i in seen:
            continue
        seen.add(i)
        if z3.is_const(e):
            if e.decl().kind() == z3.Z3_OP_UNINTERPRETED:
                out.append(e)
            continue
        stack.extend(e.children())
    return out


def _point_value(name, salt=0):
    h = salt * 7919 + 17
    for ch in name:
        h = (h * 1000003 + ord(ch)) % 2147483629
    return z3.Q((h % 9973) - 4986 or 5, (h // 9973) % 89 + 2)


def _proved_identical(t1, t0):
    """is  t1 == t0  a (polynomial) identity?  decided by the solver, small budget."""
    s = z3.Solver()
    s.set('rlimit', 30_000_000)
    s.set('timeout', 20_000)
    s.add(t1 != t0)
    return s.check() == z3.unsat


def fingerprint(t):
    """value of a polynomial term at a fixed pseudo-random rational point (Schwartz-Zippel key); None if not numeric."""
    try:
        vs = _term_vars(t)
        key = []
        for salt in (0, 1):
            v = z3.simplify(z3.substitute(t, *[(x, _point_value(x.decl().name(), salt)) for x in vs])) if vs else z3.simplify(t)
            if not z3.is_rational_value(v):
                return None
            key.append((v.numerator_as_long(), v.denominator_as_long()))
        return tuple(key)
    except Exception:
        pass
    return None


def _recip(b):
    """
    1/b as a fresh variable q with q*b == 1, b != 0 recorded (keeps every query polynomial).
    Denominators that agree at two pseudo-random points are *conjectured* equal; the conjecture
    b == b0 is decided by the solver on the spot and only a proved identity shares the reciprocal
    variable, so sharing is sound.  This lets two separately generated programs
    that divide by the same polynomial be compared without non-linear reasoning about q's.
    """
    c = cur()
    fp = fingerprint(b)
    table = c.__dict__.setdefault('_recips', {})
    if fp is not None and fp in table:
        b0, q0 = table[fp]
        if b0.eq(b) or _proved_identical(b, b0):
            return q0
        fp = None           # fingerprints collide but the terms are not proved identical: no sharing
    q = c.fresh('q')
    c.denominators.append(b)
    c.assume(b != 0, 'denominator != 0')
    c.assume(q * b == 1)
    if fp is not None:
        table[fp] = (b, q)
    return q


def _div(a, b):
    bs = z3.simplify(b)
    if z3.is_rational_value(bs):
        if bs.numerator_as_long() == 0:
            raise ZeroDivisionError('division of a symbolic value by constant zero')
        return a * z3.Q(bs.denominator_as_long(), bs.numerator_as_long())
    q = _recip(b)
    a1 = z3.simplify(a) if z3.is_rational_value(a) else a
    if z3.is_rational_value(a1) and a1.numerator_as_long() == 1 and a1.denominator_as_long() == 1:
        return q
    return a * q


def _sqrt(x):
    c = cur()
    fp = fingerprint(x)
    table = c.__dict__.setdefault('_roots', {})
    if fp is not None and fp in table:
        x0, y0 = table[fp]
        if x0.eq(x) or _proved_identical(x, x0):
            return y0
        fp = None
    y = c.fresh('r')
    c.radicands.append(x)
    c.assume(x >= 0, 'radicand >= 0')
    c.assume(y >= 0)
    c.assume(y * y == x)
    if fp is not None:
        table[fp] = (x, y)
    return y


# --------------------------------------------------------------------------- SB

class SB:
    """Symbolic boolean: the result of comparing proxies."""
    __slots__ = ('b',)

    def __init__(self, b):
        self.b = b

    def __bool__(self):
        c = cur()
        if c.fork:
            return c.decide(self.b)
        raise ValueBranch(f'truth value of comparison {self.b} inspected')

    def __invert__(self):
        return SB(z3.Not(self.b))

    def __and__(self, o):
        return SB(z3.And(self.b, o.b if isinstance(o, SB) else z3.BoolVal(bool(o))))

    def __or__(self, o):
        return SB(z3.Or(self.b, o.b if isinstance(o, SB) else z3.BoolVal(bool(o))))

    def __repr__(self):
        return f'SB({self.b})'


# --------------------------------------------------------------------------- SV

class _SVOps:
    """operations shared by SV and the float-subclass variant SVf."""
    __slots__ = ()

    # ---- arithmetic
    def _bin(self, o, f):
        t = lift(o)
        if t is None:
            return NotImplemented
        return self.__class__(f(self.t, t))

    def __add__(s, o): return s._bin(o, lambda a, b: a + b)
    def __radd__(s, o): return s._bin(o, lambda a, b: b + a)
    def __sub__(s, o): return s._bin(o, lambda a, b: a - b)
    def __rsub__(s, o): return s._bin(o, lambda a, b: b - a)
    def __mul__(s, o): return s._bin(o, lambda a, b: a * b)
    def __rmul__(s, o): return s._bin(o, lambda a, b: b * a)
    def __truediv__(s, o): return s._bin(o, _div)
    def __rtruediv__(s, o): return s._bin(o, lambda a, b: _div(b, a))
    def __neg__(s): return s.__class__(-s.t)
    def __pos__(s): return s

    def __pow__(s, n, mod=None):
        if isinstance(n, (bool, np.bool_)):
            n = int(n)
        if isinstance(n, (int, np.integer)):
            n = int(n)
            if n >= 0:
                r = z3.RealVal(1)
                for _ in range(n):
                    r = r * s.t
                return s.__class__(r)
            return 1 / (s ** (-n))
        if isinstance(n, (float, Fraction)) and float(2 * n).is_integer():
            k = int(2 * n)
            if k % 2 == 0:
                return s ** (k // 2)
            root = s.__class__(_sqrt(s.t))
            return root ** k if k >= 0 else 1 / (root ** (-k))
        if isinstance(n, (float, Fraction)):
            # any other real exponent: an unconstrained fresh value per (base term, exponent).
            # Nothing can be PROVED about it, but differing uses show up as sat and are replayed.
            c = cur()
            key = (s.t.get_id(), float(n))
            cache = c.__dict__.setdefault('_pow_cache', {})
            if key not in cache:
                cache[key] = c.fresh('p')
                c.notes.append(f'uninterpreted power **{n}')
            return s.__class__(cache[key])
        raise ValueBranch(f'unsupported power {n!r} of a symbolic value')

    def __abs__(s):
        return s.__class__(z3.If(s.t >= 0, s.t, -s.t))

    # ---- comparisons -> SB
    def _cmp(self, o, f):
        t = lift(o)
        if t is None:
            return NotImplemented
        return SB(f(self.t, t))

    def __eq__(s, o): return s._cmp(o, lambda a, b: a == b)
    def __ne__(s, o): return s._cmp(o, lambda a, b: a != b)
    def __lt__(s, o): return s._cmp(o, lambda a, b: a < b)
    def __le__(s, o): return s._cmp(o, lambda a, b: a <= b)
    def __gt__(s, o): return s._cmp(o, lambda a, b: a > b)
    def __ge__(s, o): return s._cmp(o, lambda a, b: a >= b)

    def __hash__(s):
        return s.t.hash()

    # ---- value inspections
    def __bool__(s):
        c = cur()
        if c.fork:
            return c.decide(s.t != 0)
        raise ValueBranch('truth value of a symbolic coefficient inspected')

    def __float__(s): raise ValueBranch('float() of a symbolic coefficient')
    def __int__(s): raise ValueBranch('int() of a symbolic coefficient')
    def __index__(s): raise ValueBranch('__index__ of a symbolic coefficient')
    def __complex__(s): raise ValueBranch('complex() of a symbolic coefficient')

    def __repr__(s):
        txt = str(s.t)
        return f'SV({txt if len(txt) < 80 else txt[:77] + "..."})'

    def copy(s):
        return s


class SV(_SVOps):
    """Symbolic value: a z3 Real term with ring-element behaviour."""
    __slots__ = ('t',)

    def __init__(self, t):
        self.t = t


class SVf(_SVOps):
    """
    Symbolic value that is ALSO a ``numbers.Real`` (registered as a virtual subclass), so that code dispatching on
    ``isinstance(v, numbers.Real)`` -- MultiVector.exp -- takes its numeric branches.  It is deliberately NOT a ``float``:
    exp() applies a floating-point tolerance to python floats (repair of 'exp refuses float 2-blades'), which has no
    place in the exact-real model; that behaviour is covered by the concrete kind exp-float-blade.  Every arithmetic /
    comparison dunder is the symbolic one; ``float()`` raises.
    """
    def __init__(self, t):
        self.t = t

    def __reduce__(self):
        raise ValueBranch('pickling a symbolic value')

    __hash__ = _SVOps.__hash__
    __eq__ = _SVOps.__eq__
    __ne__ = _SVOps.__ne__
    __lt__ = _SVOps.__lt__
    __le__ = _SVOps.__le__
    __gt__ = _SVOps.__gt__
    __ge__ = _SVOps.__ge__
    __repr__ = _SVOps.__repr__
    __str__ = _SVOps.__repr__
    __bool__ = _SVOps.__bool__
    __float__ = _SVOps.__float__
    __int__ = _SVOps.__int__
    __abs__ = _SVOps.__abs__
    __neg__ = _SVOps.__neg__
    __pos__ = _SVOps.__pos__
    __pow__ = _SVOps.__pow__
    __add__ = _SVOps.__add__
    __radd__ = _SVOps.__radd__
    __sub__ = _SVOps.__sub__
    __rsub__ = _SVOps.__rsub__
    __mul__ = _SVOps.__mul__
    __rmul__ = _SVOps.__rmul__
    __truediv__ = _SVOps.__truediv__
    __rtruediv__ = _SVOps.__rtruediv__

    def __trunc__(self): raise ValueBranch('trunc() of a symbolic coefficient')
    def __round__(self, n=None): raise ValueBranch('round() of a symbolic coefficient')
    def __floordiv__(self, o): raise ValueBranch('// on a symbolic coefficient')
    def __mod__(self, o): raise ValueBranch('% on a symbolic coefficient')
    def is_integer(self): raise ValueBranch('is_integer() of a symbolic coefficient')
    def as_integer_ratio(self): raise ValueBranch('as_integer_ratio() of a symbolic coefficient')


def var(name: str) -> SV:
    return SV(z3.Real(name))


def const(x) -> SV:
    return SV(lift(x))


def term(x):
    """z3 term of an SV / number (0 for the int 0 that kingdon returns for absent blades)."""
    t = lift(x)
    if t is None:
        raise TypeError(f'not a scalar value: {type(x).__name__}: {x!r}')
    return t


# --------------------------------------------------------------------------- factories

class SymFactory:
    """Hands out symbolic values; every named variable is remembered for model read-back."""
    symbolic = True

    def __init__(self):
        self.names = []

    def var(self, name):
        self.names.append(name)
        return var(name)

    def vars(self, prefix, n):
        return [self.var(f'{prefix}{i}') for i in range(n)]

    def const(self, x):
        return x


class ConcreteFactory:
    """Hands out exact rationals from a (model) dictionary; deterministic default otherwise."""
    symbolic = False

    def __init__(self, values=None, default_seed=0):
        self.values = dict(values or {})
        self.names = []
        self.seed = default_seed

    def var(self, name):
        self.names.append(name)
        if name in self.values:
            v = self.values[name]
            return v if not isinstance(v, str) else Fraction(v)
        # deterministic small non-zero rational that depends on the name only
        h = 0
        for ch in f'{self.seed}:{name}':
            h = (h * 131 + ord(ch)) % 1000003
        num = (h % 17) - 8 or 3
        den = (h // 17) % 5 + 1
        v = Fraction(num, den)
        self.values[name] = v
        return v

    def vars(self, prefix, n):
        return [self.var(f'{prefix}{i}') for i in range(n)]

    def const(self, x):
        return x


# --------------------------------------------------------------------------- fork explorer

def explore(fn, max_paths=64, max_depth=64, rlimit=20_000_000):
    """
    Run ``fn()`` once per feasible decision path (fork mode).  Yields (ctx, result).
    ``fn`` must be deterministic apart from the decisions.  Raises PathBudget when the
    worklist does not empty within ``max_paths`` (the caller reports 'inconclusive').
    """
    worklist = [[]]
    n = 0
    while worklist:
        prefix = worklist.pop()
        n += 1
        if n > max_paths:
            raise PathBudget(f'more than {max_paths} paths')
        ctx = Ctx(fork=True, prefix=prefix, max_depth=max_depth, rlimit=rlimit)
        with ctx:
            try:
                res = fn()
            except Infeasible:
                continue
        worklist.extend(ctx.siblings)
        yield ctx, res


import numbers as _numbers
_numbers.Real.register(SVf)
