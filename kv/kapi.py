"""
Thin layer over kingdon's *public* API used by all property modules: algebra factories
from JSON-able configurations, multivectors with factory-supplied coefficients, coefficient
maps, claim builders, and the observation points (event recorder) that live outside /repo.
"""
from __future__ import annotations

import itertools
import warnings
from collections import OrderedDict

from .core import Eq, Fail, Note
from .ref import KMap, popcount

_REC = {'installed': False, 'funcs': {}, 'per_key': {}, 'codegen_events': 0, 'compile_events': 0, 'py_compile': 0, 'lambdify': 0, 'func_builder': 0}


# --------------------------------------------------------------------------- recorder

def install_recorder():
    """Count/code-name every function kingdon generates (observation from outside /repo)."""
    if _REC['installed']:
        return
    import kingdon.operator_dict as od
    orig_codegen, orig_compile = od.do_codegen, od.do_compile

    def do_codegen(codegen, *mvs):
        out = orig_codegen(codegen, *mvs)       # (a generation that raises produced no function: not counted)
        try:
            k = (id(mvs[0].algebra), getattr(codegen, '__name__', str(codegen)), tuple(tuple(m.keys()) for m in mvs))
            _REC['per_key'][k] = _REC['per_key'].get(k, 0) + 1
        except Exception:
            pass
        _REC['codegen_events'] += 1
        try:
            n = out.func.__name__
            _REC['funcs'][n] = _REC['funcs'].get(n, 0) + 1
        except Exception:
            pass
        return out

    def do_compile(codegen, *tapes):
        out = orig_compile(codegen, *tapes)
        try:
            k = (id(tapes[0].algebra), 'compile:' + getattr(codegen, '__name__', str(codegen)), tuple(tuple(m.keys()) for m in tapes))
            _REC['per_key'][k] = _REC['per_key'].get(k, 0) + 1
        except Exception:
            pass
        _REC['compile_events'] += 1
        try:
            n = out.func.__name__
            _REC['funcs'][n] = _REC['funcs'].get(n, 0) + 1
        except Exception:
            pass
        return out

    od.do_codegen, od.do_compile = do_codegen, do_compile
    # lower-level events: the builtin compile() as seen from kingdon.codegen, lambdify, func_builder
    import builtins
    import kingdon.codegen as cg

    def counting_compile(*a, **k):
        _REC['py_compile'] += 1
        return builtins.compile(*a, **k)
    cg.compile = counting_compile
    for name in ('lambdify', 'func_builder'):
        if hasattr(cg, name):
            orig = getattr(cg, name)

            def wrapped(*a, __orig=orig, __name=name, **k):
                _REC[__name] += 1
                return __orig(*a, **k)
            setattr(cg, name, wrapped)
    _REC['installed'] = True


def recorder_snapshot():
    return {'funcs': dict(_REC['funcs']), 'codegen_events': _REC['codegen_events'],
            'compile_events': _REC['compile_events']}


def recorder_events():
    """total number of generation/compilation events observed so far (any kind)."""
    return _REC['codegen_events'] + _REC['compile_events'] + _REC['py_compile'] + _REC['lambdify'] + _REC['func_builder']


def recorder_counts():
    return {k: v for k, v in _REC.items() if k not in ('installed', 'funcs', 'per_key')}


def reset_generation_counts():
    """forget the per-(algebra, operator, pattern) generation counts (call at the start of a history case:
    id() of a garbage-collected algebra can be reused by a new one)."""
    _REC['per_key'].clear()


def generated_more_than_once(alg):
    """(codegen name, key patterns) pairs for which generation SUCCEEDED more than once on this algebra object."""
    return {k[1:]: n for k, n in _REC['per_key'].items() if k[0] == id(alg) and n > 1}


# --------------------------------------------------------------------------- algebras

def make_alg(cfg: dict):
    """
    cfg keys: p,q,r | signature (list) ; start_index ; basis (list) ; name ('2DPGA'...) ;
    options: cse, graded, wrapper ('identity'|'wraps'|None), symbolcls ('sympy'|None)
    """
    from kingdon import Algebra
    if cfg.get('derive'):
        # an algebra derived from another one with dataclasses.replace (as the pinned suite does)
        import dataclasses
        base = make_alg({k: v for k, v in cfg.items() if k != 'derive'})
        return dataclasses.replace(base, **cfg['derive'])
    kw = {}
    for k in ('cse', 'graded'):
        if k in cfg:
            kw[k] = cfg[k]
    if cfg.get('start_index') is not None:
        kw['start_index'] = cfg['start_index']
    if cfg.get('wrapper') == 'identity':
        kw['wrapper'] = _identity_wrapper
    elif cfg.get('wrapper') == 'wraps':
        kw['wrapper'] = _wraps_wrapper
    elif cfg.get('wrapper') == 'closure':
        kw['wrapper'] = _closure_wrapper
    elif str(cfg.get('wrapper', '')).startswith('flaky'):
        kw['wrapper'] = FlakyWrapper(int(str(cfg['wrapper'])[5:] or 1))
    elif cfg.get('wrapper') == 'reentrant':
        kw['wrapper'] = ReentrantWrapper()
    elif cfg.get('wrapper') == 'counting':
        kw['wrapper'] = CountingWrapper()
    if cfg.get('symbolcls') == 'sympy':
        import sympy
        kw['codegen_symbolcls'] = sympy.Symbol
    if cfg.get('pretty_blade'):
        kw['pretty_blade'] = cfg['pretty_blade']
    if cfg.get('simp_func') == 'none':
        kw['simp_func'] = None
    if cfg.get('name'):
        alg = Algebra.fromname(cfg['name'], **kw)
    elif cfg.get('signature') is not None:
        alg = Algebra(signature=list(cfg['signature']), basis=list(cfg.get('basis') or []), **kw)
    else:
        alg = Algebra(cfg.get('p', 0), cfg.get('q', 0), cfg.get('r', 0), basis=list(cfg.get('basis') or []), **kw)
    if isinstance(kw.get('wrapper'), ReentrantWrapper):
        kw['wrapper'].alg = alg
    return alg


class WrapperFailure(Exception):
    pass


class FlakyWrapper:
    """semantics-preserving wrapper whose n-th application fails once (a JIT that errors, then works)."""
    def __init__(self, fail_at=1):
        self.n, self.fail_at = 0, fail_at

    def __call__(self, f):
        self.n += 1
        if self.n == self.fail_at:
            raise WrapperFailure(f'wrapper failed on its application number {self.n}')
        return f


class CountingWrapper:
    """dispatcher-style wrapper (a plain closure without __wrapped__) that counts how often each generated
    function is handed to it: wrapping stands for JIT compilation, which must happen once per function."""
    def __init__(self):
        self.applied = {}

    def __call__(self, f):
        n = getattr(f, '__name__', repr(f))
        self.applied[n] = self.applied.get(n, 0) + 1

        def dispatch(*a, **k):
            return f(*a, **k)
        return dispatch


class ReentrantWrapper:
    """
    Semantics-preserving wrapper that itself uses the algebra while a function is being wrapped (i.e.
    between code generation and cache insertion of the outer call): a deterministic re-entrancy point.
    """
    def __init__(self):
        self.alg = None
        self.depth = 0

    def __call__(self, f):
        if self.alg is not None and self.depth == 0:
            self.depth += 1
            try:
                a = self.alg
                d = a.d
                x = a.multivector(keys=(0, 2 ** d - 1), values=[2, 3])
                y = a.multivector(keys=(2 ** d - 1, 0), values=[5, 7])
                (x * y) + (y ^ x) - ~x
            finally:
                self.depth -= 1
        return f


def _identity_wrapper(f):
    return f


def _closure_wrapper(f):
    """semantics-preserving pass-through that does NOT copy __name__ (a plain closure)."""
    def inner(*a, **k):
        return f(*a, **k)
    return inner


def _wraps_wrapper(f):
    import functools

    @functools.wraps(f)
    def inner(*a, **k):
        return f(*a, **k)
    return inner


_ALG_CACHE: "OrderedDict[str, object]" = OrderedDict()


def cfg_key(cfg):
    import json
    return json.dumps(cfg, sort_keys=True)


def get_alg(cfg, fresh=False, cache_size=6):
    """Algebra for cfg; shared between cases of one worker unless ``fresh``."""
    if fresh:
        return make_alg(cfg)
    k = cfg_key(cfg)
    if k in _ALG_CACHE:
        _ALG_CACHE.move_to_end(k)
        return _ALG_CACHE[k]
    alg = make_alg(cfg)
    _ALG_CACHE[k] = alg
    while len(_ALG_CACHE) > cache_size:
        _ALG_CACHE.popitem(last=False)
    return alg


_KMAP_CACHE = {}


def kmap(alg) -> KMap:
    k = id(alg)
    if k not in _KMAP_CACHE or _KMAP_CACHE[k][0] is not alg:
        if len(_KMAP_CACHE) > 32:
            _KMAP_CACHE.clear()
        _KMAP_CACHE[k] = (alg, KMap(alg))
    return _KMAP_CACHE[k][1]


# --------------------------------------------------------------------------- multivectors

def mv(alg, V, name, keys):
    """Multivector of ``alg`` storing ``keys`` (in that order) with factory coefficients."""
    from kingdon.multivector import MultiVector
    keys = tuple(int(k) for k in keys)
    vals = [V.var(f'{name}_{k}') for k in keys]
    return MultiVector.fromkeysvalues(alg, keys, vals)


def mv_public(alg, V, name, keys):
    """Same through the public constructor (keys=..., values=...)."""
    keys = tuple(int(k) for k in keys)
    vals = [V.var(f'{name}_{k}') for k in keys]
    return alg.multivector(keys=keys, values=vals)


def coeffs(x) -> dict:
    """{key: value} of a kingdon multivector (duplicate keys are summed and flagged)."""
    res = {}
    for k, v in zip(x.keys(), x.values()):
        if k in res:
            res[k] = res[k] + v
        else:
            res[k] = v
    return res


def dup_keys(x):
    ks = list(x.keys())
    return len(ks) != len(set(ks))


def eq_claims(tag, got: dict, want: dict, keys=None, fkey=None):
    """Eq claims over the union of blades: a blade one side does not store counts as 0."""
    out = []
    ks = sorted(set(got) | set(want)) if keys is None else keys
    for k in ks:
        out.append(Eq(f'{tag}[{k}]', got.get(k, 0), want.get(k, 0), fkey))
    return out


def mv_eq_claims(tag, x, want: dict, fkey=None):
    out = []
    from kingdon.multivector import MultiVector
    if not isinstance(x, MultiVector):
        return [Fail(f'{tag}:type', f'result is {type(x).__name__}, not a MultiVector', fkey)]
    if dup_keys(x):
        out.append(Fail(f'{tag}:dupkeys', f'result stores a blade twice: keys={tuple(x.keys())}', fkey))
    if len(x.keys()) != len(x.values()):
        out.append(Fail(f'{tag}:len', f'{len(x.keys())} keys but {len(x.values())} values', fkey))
        return out
    out.extend(eq_claims(tag, coeffs(x), want, fkey=fkey))
    return out


def mv_mv_claims(tag, x, y, fkey=None):
    return mv_eq_claims(tag, x, coeffs(y), fkey=fkey) + ([Fail(f'{tag}:dupkeys-rhs', 'rhs stores a blade twice', fkey)] if dup_keys(y) else [])


# --------------------------------------------------------------------------- configurations

def pqr_list(d):
    return [(p, q, d - p - q) for p in range(d, -1, -1) for q in range(d - p, -1, -1)]


def all_keys(alg_or_d):
    d = alg_or_d if isinstance(alg_or_d, int) else alg_or_d.d
    return tuple(range(2 ** d))


def grade_keys(alg, grades):
    return tuple(alg.indices_for_grades[tuple(sorted(grades))])


def twice_on_wrapper(cfg, body):
    """
    Run ``body(alg)`` (which returns claims) on the algebra of ``cfg``.  With a ``wrapper`` the numeric
    path resolves generated functions BY NAME in Algebra.numspace at call time, so a second pass is
    made on the same (fresh) algebra after every function of the first pass has been generated: a
    function overwritten under a shared name by a later one then shows up in the second pass.
    """
    from .core import Eq, Fail
    if not cfg.get('wrapper'):
        return body(get_alg(cfg))
    alg = make_alg(cfg)
    claims = list(body(alg))
    for c in body(alg):
        if isinstance(c, (Eq, Fail)):
            c.label = 'recall:' + c.label
            c.fkey = 'recall|' + (c.fkey or _strip(c.label))
        claims.append(c)
    return claims


def _strip(label):
    import re
    return re.sub(r'\[[^\]]*\]', '', label)
