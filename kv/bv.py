"""
Engine B: kingdon's real term-filter closures executed on z3 bit-vector blade indices.

``codegen_op/ip/lc/rc/sp/rp`` build three closures (filter_func, keyout_func, sign_func) and
hand them to ``codegen_product``.  We capture exactly those closure objects by temporarily
replacing ``kingdon.codegen.codegen_product`` with a recorder, then *call* them on ``SI``
proxies (signed bit-vectors wide enough that + and - cannot overflow).  One query per lemma
covers all 4^W blade pairs.  A sat model is replayed by calling the same closure on the
concrete integers of the model.
"""
from __future__ import annotations

import time

import z3

from . import sym
from .core import _new_result, _violation


class SBV:
    """symbolic bool from bit-vector comparisons."""
    __slots__ = ('b',)

    def __init__(self, b):
        self.b = b

    def __bool__(self):
        c = sym.cur()
        if c.fork:
            return c.decide(self.b)
        raise sym.ValueBranch('truth value of a blade-index comparison inspected')


class SI:
    """symbolic blade index / small signed integer (two's complement, width WB)."""
    __slots__ = ('t', 'w')

    def __init__(self, t, w):
        self.t, self.w = t, w

    def _lift(self, o):
        if isinstance(o, SI):
            return o.t
        if isinstance(o, bool):
            return z3.BitVecVal(int(o), self.w)
        if isinstance(o, int):
            return z3.BitVecVal(o, self.w)
        return None

    def _bin(self, o, f):
        t = self._lift(o)
        if t is None:
            return NotImplemented
        return SI(f(self.t, t), self.w)

    def __add__(s, o): return s._bin(o, lambda a, b: a + b)
    def __radd__(s, o): return s._bin(o, lambda a, b: b + a)
    def __sub__(s, o): return s._bin(o, lambda a, b: a - b)
    def __rsub__(s, o): return s._bin(o, lambda a, b: b - a)
    def __xor__(s, o): return s._bin(o, lambda a, b: a ^ b)
    def __rxor__(s, o): return s._bin(o, lambda a, b: b ^ a)
    def __and__(s, o): return s._bin(o, lambda a, b: a & b)
    def __rand__(s, o): return s._bin(o, lambda a, b: b & a)
    def __or__(s, o): return s._bin(o, lambda a, b: a | b)
    def __ror__(s, o): return s._bin(o, lambda a, b: b | a)
    def __mul__(s, o): return s._bin(o, lambda a, b: a * b)
    def __rmul__(s, o): return s._bin(o, lambda a, b: b * a)
    def __mod__(s, o): return s._bin(o, lambda a, b: z3.URem(a, b))      # operands are non-negative here
    def __floordiv__(s, o): return s._bin(o, lambda a, b: z3.UDiv(a, b))
    def __rshift__(s, o): return s._bin(o, lambda a, b: z3.LShR(a, b))
    def __lshift__(s, o): return s._bin(o, lambda a, b: a << b)
    def __neg__(s): return SI(-s.t, s.w)
    def __pos__(s): return s
    def __abs__(s): return SI(z3.If(s.t < 0, -s.t, s.t), s.w)
    def __invert__(s): return SI(~s.t, s.w)

    def _cmp(self, o, f):
        t = self._lift(o)
        if t is None:
            return NotImplemented
        return SBV(f(self.t, t))

    def __eq__(s, o): return s._cmp(o, lambda a, b: a == b)
    def __ne__(s, o): return s._cmp(o, lambda a, b: a != b)
    def __lt__(s, o): return s._cmp(o, lambda a, b: a < b)
    def __le__(s, o): return s._cmp(o, lambda a, b: a <= b)
    def __gt__(s, o): return s._cmp(o, lambda a, b: a > b)
    def __ge__(s, o): return s._cmp(o, lambda a, b: a >= b)
    def __hash__(s): return s.t.hash()

    def __bool__(s):
        c = sym.cur()
        if c.fork:
            return c.decide(s.t != 0)
        raise sym.ValueBranch('truth value of a symbolic blade index inspected')

    def __index__(s): raise sym.ValueBranch('__index__ of a symbolic blade index')
    def __int__(s): raise sym.ValueBranch('int() of a symbolic blade index')

    def popcount(s):
        r = z3.BitVecVal(0, s.w)
        for i in range(s.w):
            r = r + z3.ZeroExt(s.w - 1, z3.Extract(i, i, s.t))
        return SI(r, s.w)


class _BinStr:
    """what the shimmed ``bin(k)`` returns for a symbolic k: supports .count('1')."""
    def __init__(self, si):
        self.si = si

    def count(self, ch):
        if ch != '1':
            raise sym.ValueBranch("bin(k).count of something else than '1'")
        return self.si.popcount()


def bin_shim(k):
    if isinstance(k, SI):
        return _BinStr(k)
    return bin(k)


def popcount_term(t, w):
    r = z3.BitVecVal(0, w)
    for i in range(w):
        r = r + z3.ZeroExt(w - 1, z3.Extract(i, i, t))
    return r


def blade_var(name, W, WB):
    """blade index < 2^W as a WB-bit vector; returns (SI, range constraint)."""
    v = z3.BitVec(name, WB)
    return SI(v, WB), z3.And(v >= 0, z3.ULT(v, z3.BitVecVal(1 << W, WB)))


# --------------------------------------------------------------------------- capture

class _FakeMV:
    def __init__(self, algebra):
        self.algebra = algebra

    def items(self):
        return ()


def capture_product_closures(codegen_fn, alg):
    """Run codegen_fn(x, y) with codegen_product replaced by a recorder; return its kwargs."""
    import kingdon.codegen as cg
    rec = {}

    def recorder(x, y, filter_func=None, sign_func=None, keyout_func=None):
        rec.update(filter_func=filter_func, sign_func=sign_func, keyout_func=keyout_func)
        return {}

    if not hasattr(cg, 'codegen_product'):
        return None
    orig = cg.codegen_product
    cg.codegen_product = recorder
    try:
        codegen_fn(_FakeMV(alg), _FakeMV(alg))
    finally:
        cg.codegen_product = orig
    return rec or None


# --------------------------------------------------------------------------- lemma helper

def lemma(prop, name, negated, names, replay_fn, rlimit=400_000_000, extra=None, kind='bv-lemma'):
    """
    Decide one bit-vector lemma: ``negated`` must be unsat.  ``replay_fn(model_ints)`` re-runs
    the real closure on concrete ints and returns a detail string when the violation reproduces.
    """
    desc = dict(kind=kind, lemma=name, **(extra or {}))
    res = _new_result(desc)
    t0 = time.time()
    s = z3.Solver()
    s.set('rlimit', rlimit)
    s.set('timeout', 600_000)
    s.add(negated)
    t = time.time()
    r = s.check()
    res['solver_s'] = time.time() - t
    res['queries'] = 1
    res[str(r)] = 1
    res['n_eq'] = res['n_eq_nontrivial'] = 1
    res['nontrivial'] = True
    if r == z3.unknown:
        res['status'] = 'inconclusive'
        res['notes'].append(f'lemma {name}: unknown')
    elif r == z3.sat:
        m = s.model()
        vals = {}
        for n, w in names.items():
            v = m.eval(z3.BitVec(n, w), model_completion=True).as_signed_long()
            vals[n] = v
        detail = None
        try:
            detail = replay_fn(vals)
        except Exception as e:  # noqa
            detail = None
            res['notes'].append(f'replay raised {type(e).__name__}: {e}')
        if detail:
            res['status'] = 'violation'
            res['violations'].append(_violation(prop, desc, name, f'{kind}|{name}', detail, vals, kind='bv'))
        else:
            res['status'] = 'error'
            res['notes'].append(f'lemma {name}: sat model {vals} did not reproduce on the concrete closure')
    res['wall_s'] = time.time() - t0
    return res
