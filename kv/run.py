"""
Runner: enumerates a property's cases, shards them over worker processes, aggregates
verdicts, writes replay files and the evidence file, prints VIOLATION / KNOWN-FINDING lines
and sets the exit status (0 held, 1 violation, 2 inconclusive / harness error).
"""
from __future__ import annotations

import hashlib
import importlib
import json
import os
import sys
import time
from concurrent.futures import ProcessPoolExecutor, as_completed
import multiprocessing as mp

ROOT = os.path.dirname(os.path.dirname(os.path.abspath(__file__)))
EVID = os.environ.get('KV_EVIDENCE_DIR') or os.path.join(ROOT, 'evidence')
REPLAYS = os.environ.get('KV_REPLAY_DIR') or os.path.join(ROOT, 'replays')
FINDINGS = os.path.join(ROOT, 'known_findings.txt')

LEVELS = {'exploration', 'fault_enumeration', 'model_checking', 'proof', 'translation_validation', 'other'}


# --------------------------------------------------------------------------- findings

def load_findings():
    """lines:  open: property=C13 key=<fkey> <text>   |   fixed: property=C11 <commit> <text>"""
    open_, fixed = {}, []
    if not os.path.exists(FINDINGS):
        return open_, fixed
    for line in open(FINDINGS, encoding='utf-8'):
        line = line.strip()
        if not line or line.startswith('#'):
            continue
        if line.startswith('open:'):
            parts = line[5:].split()
            d = {}
            rest = []
            for p in parts:
                if p.startswith('property=') and 'property' not in d:
                    d['property'] = p[9:]
                elif p.startswith('key=') and 'key' not in d:
                    d['key'] = p[4:]
                else:
                    rest.append(p)
            if 'property' in d and 'key' in d:
                open_[(d['property'], d['key'])] = ' '.join(rest)
        elif line.startswith('fixed:'):
            fixed.append(line)
    return open_, fixed


# --------------------------------------------------------------------------- replay files

def write_replay(prop, viol):
    d = os.path.join(REPLAYS, prop)
    os.makedirs(d, exist_ok=True)
    body = json.dumps(viol, sort_keys=True, default=str)
    h = hashlib.sha1(body.encode()).hexdigest()[:12]
    path = os.path.join(d, f'{h}.json')
    with open(path, 'w') as f:
        json.dump(viol, f, indent=1, sort_keys=True, default=str)
    return path


def replay(path):
    """Re-run a recorded violation on exact rationals against the current /repo tree."""
    from fractions import Fraction
    from . import core
    viol = json.load(open(path))
    mod = importlib.import_module(viol['module'])
    values = {k: Fraction(v) for k, v in viol.get('values', {}).items()}
    print(f'replay {path}\n property={viol["property"]} case={json.dumps(viol["desc"])}\n label={viol["label"]}\n values={viol.get("values")}')
    if hasattr(mod, 'replay_special') and viol.get('vkind') in getattr(mod, 'SPECIAL_KINDS', ()):
        ok = mod.replay_special(viol)
        print('reproduced' if ok else 'NOT reproduced')
        return 1 if ok else 0
    claims, exc, _ = core._run_concrete(mod, viol['desc'], values)
    if exc is not None:
        print(f' concrete run raised {type(exc).__name__}: {exc}')
        return 1 if viol.get('vkind') in ('exception', 'concrete') else 2
    bad = 0
    for c in claims:
        if isinstance(c, core.Eq) and not core.concrete_equal(c.lhs, c.rhs):
            print(f' MISMATCH {c.label}: got {core._fmt(c.lhs)} expected {core._fmt(c.rhs)}')
            bad += 1
        elif isinstance(c, core.Fail):
            print(f' FAIL {c.label}: {c.detail}')
            bad += 1
    print('reproduced' if bad else 'NOT reproduced (property holds on these values now)')
    return 1 if bad else 0


# --------------------------------------------------------------------------- main run

def _chunks(descs, nworkers, per_worker=6, maxsize=400):
    n = len(descs)
    if n == 0:
        return []
    # cases marked heavy (schedule exploration ...) get a chunk of their own and are submitted first
    heavy = [[d] for d in descs if d.get('heavy')]
    descs = [d for d in descs if not d.get('heavy')]
    n = len(descs)
    size = max(1, min(maxsize, n // (nworkers * per_worker) or 1))
    return heavy + [descs[i:i + size] for i in range(0, n, size)]


def run_property(prop, tier='quick', seed=0, jobs=None, limit=None, verbose=False):
    t0 = time.time()
    modname = f'kv.props.{prop.lower()}'
    mod = importlib.import_module(modname)
    jobs = jobs or int(os.environ.get('KV_JOBS', '0')) or min(16, os.cpu_count() or 4)
    opts = dict(getattr(mod, 'OPTS', {}))
    opts.setdefault('canary_every', 10)
    opts.setdefault('fidelity_every', 25 if tier == 'quick' else 10)
    opts.setdefault('cvc5_every', 400 if tier == 'quick' else 150)
    opts['tier'] = tier
    descs = list(mod.cases(tier, seed))
    for i, d in enumerate(descs):
        d['_idx'] = i
    if limit:
        descs = descs[:limit]
    results, rec_funcs, events = [], {}, 0
    chunks = _chunks(descs, jobs, per_worker=getattr(mod, 'CHUNKS_PER_WORKER', 6))
    if jobs == 1 or len(chunks) <= 1:
        from . import core
        for ch in chunks:
            out, rec = core.worker_chunk(modname, ch, opts)
            results.extend(out)
            for k, v in rec['funcs'].items():
                rec_funcs[k] = rec_funcs.get(k, 0) + v
    else:
        from . import core
        ctx = mp.get_context('spawn')
        # overall wall-clock guard: a worker stuck in native code (solver, gmp) must not hang the check for ever
        budget = float(os.environ.get('KV_RUN_BUDGET_S', '0') or 0) or (1500 if tier == 'quick' else 4 * 3600)
        ex = ProcessPoolExecutor(max_workers=jobs, mp_context=ctx)
        futs = {ex.submit(core.worker_chunk, modname, ch, opts): ch for ch in chunks}
        try:
            for f in as_completed(futs, timeout=budget):
                out, rec = f.result()
                results.extend(out)
                for k, v in rec['funcs'].items():
                    rec_funcs[k] = max(rec_funcs.get(k, 0), v)
            ex.shutdown()
        except Exception as e:  # concurrent.futures.TimeoutError or a broken pool
            done = {id(f) for f in futs if f.done() and not f.cancelled() and f.exception() is None}
            for f, ch in futs.items():
                if id(f) in done:
                    if not any(r['desc'].get('_idx') == ch[0].get('_idx') for r in results):
                        out, rec = f.result()
                        results.extend(out)
                    continue
                for d in ch:
                    r = core._new_result(d)
                    r['status'] = 'inconclusive'
                    r['notes'].append(f'not finished within the run budget of {budget:.0f}s ({type(e).__name__}); workers killed')
                    results.append(r)
            for p in list(getattr(ex, '_processes', {}).values()):
                try:
                    p.kill()
                except Exception:
                    pass
            ex.shutdown(wait=False, cancel_futures=True)
    # extra, non-pooled obligations (bit-vector lemmas, CrossHair ...)
    extra = []
    if hasattr(mod, 'extra'):
        extra = list(mod.extra(tier, seed, jobs))
        results.extend(extra)
    results.sort(key=lambda r: r['desc'].get('_idx', 10 ** 9))
    return finish(mod, modname, prop, tier, seed, results, rec_funcs, time.time() - t0, verbose)


def finish(mod, modname, prop, tier, seed, results, rec_funcs, wall, verbose=False):
    open_f, fixed_f = load_findings()
    n = len(results)
    by_status = {}
    for r in results:
        by_status[r['status']] = by_status.get(r['status'], 0) + 1
    viols = [v for r in results for v in r['violations']]
    known, new = {}, {}
    for v in viols:
        v['module'] = modname
        key = (prop, v['fkey'])
        (known if key in open_f else new).setdefault(v['fkey'], []).append(v)

    exit_code = 0
    lines = []
    for fkey, vs in known.items():
        lines.append(f'KNOWN-FINDING: property={prop} key={fkey} {open_f[(prop, fkey)]} ({len(vs)} case(s) this run)')
    for fkey, vs in new.items():
        path = write_replay(prop, vs[0])
        lines.append(f'VIOLATION property={prop} replay={path}')
        lines.append(f'  key={fkey} cases={len(vs)} first: {vs[0]["detail"][:300]} desc={json.dumps(vs[0]["desc"])[:300]}')
        exit_code = 1
    problems = [r for r in results if r['status'] in ('inconclusive', 'error')]
    timeouts = [r for r in results if r['status'] == 'timeout']
    if timeouts:
        lines.append(f'NOTE property={prop}: {len(timeouts)} of {n} cases exceeded their wall-clock budget during code generation and were NOT explored (listed in evidence)')
        if len(timeouts) > max(3, n // 20) and exit_code == 0:
            exit_code = 2
    if problems and exit_code == 0:
        exit_code = 2
    for r in problems[:10]:
        lines.append(f'INCONCLUSIVE property={prop} status={r["status"]} desc={json.dumps(r["desc"])[:300]} notes={r["notes"][:3]}')
    if len(problems) > 10:
        lines.append(f'... {len(problems) - 10} more inconclusive cases')

    # ---- evidence
    nontrivial = [r for r in results if r.get('n_eq_nontrivial', 0) > 0 or r.get('nontrivial')]
    distinct = len({json.dumps({k: v for k, v in r['desc'].items() if k != '_idx'}, sort_keys=True) for r in nontrivial})
    q = {k: sum(r.get(k, 0) for r in results) for k in ('queries', 'unsat', 'sat', 'unknown', 'n_eq', 'n_eq_nontrivial', 'assumptions', 'rlimit_spent')}
    solver_s = sum(r.get('solver_s', 0.0) for r in results)
    canaries = [r['canary'] for r in results if r.get('canary')]
    kinds = {}
    for r in results:
        kinds[r['desc'].get('kind', '?')] = kinds.get(r['desc'].get('kind', '?'), 0) + 1
    samples = []
    seen_kinds = set()
    for r in results:
        k = r['desc'].get('kind')
        if k not in seen_kinds and len(samples) < 12:
            seen_kinds.add(k)
            samples.append({'case': {kk: vv for kk, vv in r['desc'].items() if kk != '_idx'},
                            'status': r['status'], 'equalities': r.get('n_eq', 0), 'queries': r.get('queries', 0),
                            'paths': r.get('paths', 1)})
    level = mod.LEVEL
    cov = {
        'evaluations': n,
        'distinct_nontrivial': distinct,
        'rule': getattr(mod, 'RULE', 'cases are enumerated deterministically from the seed; a case is non-trivial when at least one '
                        'of its equalities needed a solver query (the two sides were not syntactically identical terms)'),
        'samples': samples,
        'programs': len(rec_funcs) or n,
        'generated_function_names_sample': sorted(rec_funcs)[:15],
        'disagreements_checked': q['sat'],
        'explanation': getattr(mod, 'EXPLANATION', mod.__doc__ or ''),
        'exhaustive': bool(getattr(mod, 'EXHAUSTIVE', {}).get(tier, False)),
        'cases_by_kind': kinds,
        'cases_by_status': by_status,
        'solver': {'engine': f'z3 {_z3v()}', **q, 'solver_seconds': round(solver_s, 3)},
        'canaries': {'asked': len(canaries), 'refuted_as_required': sum(1 for c in canaries if c == 'sat')},
        'proxy_fidelity': {'cases_re-evaluated_on_exact_rationals': sum(1 for r in results if r.get('fidelity') == 'ok'),
                           'skipped': sum(1 for r in results if r.get('fidelity') == 'skipped')},
        'second_solver_cvc5': {v: sum(1 for r in results if r.get('cvc5') == v) for v in ('unsat', 'sat', 'unknown', 'n/a') if any(r.get('cvc5') == v for r in results)},
        'functions_encoded': getattr(mod, 'FUNCTIONS', []),
        'bounds': getattr(mod, 'BOUNDS', {}).get(tier, getattr(mod, 'BOUNDS', {})) if isinstance(getattr(mod, 'BOUNDS', {}), dict) else mod.BOUNDS,
        'outside_the_bound': getattr(mod, 'OUTSIDE', []),
        'known_findings_seen': sorted(known),
        'inconclusive': len(problems),
        'not_explored_timeouts': [{kk: vv for kk, vv in r['desc'].items() if kk != '_idx'} for r in results if r['status'] == 'timeout'][:40],
        'paths_explored': sum(r.get('paths', 1) for r in results),
        'slowest_cases_s': [round(r.get('wall_s', 0.0), 2) for r in sorted(results, key=lambda r: -r.get('wall_s', 0.0))[:5]],
    }
    for r in results:
        if r.get('coverage_extra'):
            cov.setdefault('extra', []).append(r['coverage_extra'])
    ev = {
        'property_id': prop, 'tier': tier, 'seed': int(seed), 'level': level,
        'coverage': cov,
        'assumptions': list(getattr(mod, 'ASSUMPTIONS', [])),
        'wall_s': round(wall, 2),
        'violations': len(new),
    }
    os.makedirs(EVID, exist_ok=True)
    _validate(ev)
    with open(os.path.join(EVID, f'{prop}.json'), 'w') as f:
        json.dump(ev, f, indent=1, default=str)
    for l in lines:
        print(l)
    print(f'{prop} {tier}: cases={n} status={by_status} queries={q["queries"]} (unsat {q["unsat"]}, sat {q["sat"]}, unknown {q["unknown"]}) '
          f'solver={solver_s:.1f}s wall={wall:.1f}s generated_functions={len(rec_funcs)} exit={exit_code}')
    if verbose:
        for r in results:
            if r['notes']:
                print(' ', json.dumps(r['desc'])[:200], r['status'], r['notes'][:2])
    return exit_code


def _z3v():
    try:
        import z3
        return z3.get_version_string()
    except Exception:
        return '?'


def _validate(ev):
    try:
        import jsonschema
        schema = json.load(open(os.path.join(ROOT, 'schemas', 'EVIDENCE.schema.json')))
        jsonschema.validate(ev, schema)
    except FileNotFoundError:
        pass
    except ImportError:
        pass
